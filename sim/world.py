"""One simulated run: builds the world from a record, executes the operation list against the real
file-cache code, collects per-operation observations and hands them to the oracle.

A run is a pure function of (record, code under /repo/src).
"""
import errno
import gc
import hashlib
import posixpath
import random
import re
import sys
import warnings

from . import interpose, simpool, simsync

interpose.install_global()  # before the code under test is imported anywhere (it may bind datetime/time names)
from .clock import SimClock, EPOCH0
from .resources import (FakeResponse, FetchLog, InjectedError, RequestsShim, Store, SIM_REMOTE_DIR,
                        build_sim_resource, postprocess_bytes, unpostprocess)
from .sched import Director, HarnessAbort, Sched, SimCrash
from .simfs import SimFS, SimUnsupported

CACHE_DIR = "/SIMFS/cache"
CACHE_NAME = "simcache"
OTHER_NAME = "othercache"
OTHER_DIR = "/SIMFS/othercache"

RES_FAULTS = ("NOTFOUND", "ERR_BEFORE", "ERR_MID", "ERR_AFTER", "RET_FALSE_BEFORE", "RET_FALSE_MID", "INTERRUPT_MID",
              "ERR_STOPITER", "NOTFOUND_MID")
NET_FAULTS = ("HTTP_404", "HTTP_5XX", "CONN_ERR", "TIMEOUT", "HTTP_DROP_MID")
FS_FAULTS = ("EIO", "ENOSPC", "SHORT_WRITE", "EMFILE", "SRC_MISSING", "RENAME_EIO", "DISK_FULL", "UNLINK_EACCES")
PP_FAULTS = ("PP_ERR_BEFORE", "PP_ERR_MID", "PP_ERR_AFTER", "PP_INTERRUPT_MID", "PP_NOTFOUND", "PP_NOTFOUND_AFTER")
VAL_FAULTS = ("VALIDATE_FALSE", "VALIDATE_IOERROR", "VALIDATE_RAISE")
ALL_FAULTS = RES_FAULTS + NET_FAULTS + FS_FAULTS + PP_FAULTS + VAL_FAULTS


def mix(*xs):
    h = hashlib.blake2b(digest_size=8)
    for x in xs:
        h.update(repr(x).encode())
        h.update(b"\0")
    return int.from_bytes(h.digest(), "big")


def key_uri(k, with_directives=True):
    """k: dict(scheme, res, comment, pp, val) -> the string a user passes to the cache."""
    if k["scheme"] == "sim":
        # objects named private/... live in a second store that shares the sim:// scheme with the first one
        # ... and objects named Bucket/... in a bucket whose name differs from "bucket" only in letter case (object
        # stores are case-sensitive there)
        base = ("sim://" if k["res"].startswith(("private/", "Bucket/", "BUCKET/")) else "sim://bucket/") + k["res"]
    elif k["scheme"] == "nosuch":
        base = "nosuch://bucket/" + k["res"]  # a scheme no registered resource handles (typo, missing plug-in)
    elif k["scheme"] == "https":
        base = "https://host.example/" + k["res"]
    elif k["scheme"] == "chain":
        base = "chain://bucket/" + k["res"]
    else:
        base = "file://" + SIM_REMOTE_DIR + "/" + k["res"]
    if k.get("comment"):
        base += "<<" + k["comment"]
    if not with_directives:
        return base
    d = []
    if k.get("val"):
        d.append("validate=" + k.get("vn", "v"))
    if k.get("pp"):
        d.append("postprocess=" + k.get("ppn", "pp"))
    if d:
        if k.get("rev"):
            d.reverse()  # the order of directives is free: "postprocess=pp;validate=v:..." is the same request
        return ";".join(d) + ":" + base
    return base


def cache_file_name(k):
    return "cachefile_" + hashlib.md5(key_uri(k, False).encode("utf-8", "surrogateescape")).hexdigest() + "_cachefile"


def is_cache_name(name):
    return name.startswith("cachefile_") and name.endswith("_cachefile")


ERR_TYPES = {"io": InjectedError, "conn": ConnectionError, "timeout": TimeoutError, "runtime": RuntimeError,
             "value": ValueError, "os": OSError, "interrupted": InterruptedError, "blocking": BlockingIOError,
             "perm": PermissionError, "eof": EOFError, "key": KeyError,
             # warnings.warn() in a process that turns warnings into errors: exceptions that derive from Warning
             "warning": RuntimeWarning, "userwarning": UserWarning}


class _QuietTqdm:
    """tqdm stand-in (the real one owns a monitor thread and reads the host clock): iterates its argument when
    it has one, and otherwise accepts the manual protocol (update / close / context manager) silently"""

    def __init__(self, iterable=None, *a, **kw):
        self._it = iterable
        self.n = 0
        self.total = kw.get("total")

    def __iter__(self):
        return iter(self._it if self._it is not None else ())

    def __len__(self):
        return len(self._it) if self._it is not None else int(self.total or 0)

    def update(self, n=1):
        self.n += n

    def close(self):
        pass

    def refresh(self, *a, **kw):
        pass

    def set_description(self, *a, **kw):
        pass

    def set_postfix(self, *a, **kw):
        pass

    def write(self, *a, **kw):
        pass

    def __enter__(self):
        return self

    def __exit__(self, *a):
        return False


class _TqdmModule:
    """`import tqdm` as seen by the code under test: tqdm.tqdm / tqdm.auto.tqdm / tqdm.trange are quiet"""
    tqdm = _QuietTqdm
    auto = type("auto", (), {"tqdm": _QuietTqdm})
    trange = staticmethod(lambda *a, **kw: _QuietTqdm(range(*a), **kw))


class RunDirector(Director):
    def __init__(self, world, record):
        self.w = world
        k = record["knobs"]
        self.sched_knob = dict(k.get("sched") or {"policy": "none"})
        self.seed = record["seed"]
        self.faults = [dict(f) for f in record.get("faults", [])]
        for f in self.faults:
            f["_fired"] = False
        self.crash = dict(record["crash"]) if record.get("crash") else None
        # a history may hold a second crash point (in a later operation: the process dies again while it is
        # recovering from, or retrying after, the first crash)
        self.crashes = [dict(c) for c in (record.get("crash"), record.get("crash2")) if c]
        self.clock_events = [dict(c) for c in record.get("clock_events", [])]
        self.sched_overrides = record.get("sched_overrides") or {}
        self.sched_choices = record.get("sched_choices") or {}
        self.op = None
        self.op_yields = 0
        self.op_muts = 0
        self.per_path = {}
        self.fired = []  # faults fired in the current op
        self.crash_fired = None
        self.rng_s = random.Random(0)
        self.rng_c = random.Random(0)
        self.choices_rec = {}
        self.op_policy = "none"
        self.prio = {}
        self.pct_points = ()
        self.op_decisions = 0
        self.mut_trace = None  # list of (kind, path) when recording crash points
        self.torn_crashes = 0

    def begin_op(self, op_id):
        self.op = op_id
        self.op_yields = 0
        self.op_muts = 0
        self.op_decisions = 0
        self.per_path = {}
        self.fired = []
        self.rng_s = random.Random(mix(self.seed, "sched", op_id))
        self.rng_c = random.Random(mix(self.seed, "clock", op_id))
        ov = self.sched_overrides.get(str(op_id))
        self.op_policy = ov if ov else self.sched_knob.get("policy", "none")
        self.explicit = self.sched_choices.get(str(op_id))
        if self.explicit is None and self.sched_choices:
            self.explicit = []  # an explicit schedule is in force: no entry = nobody is pre-empted
        self.explicit_i = 0
        if self.op_policy == "pct":
            d = self.sched_knob.get("d", 2)
            self.pct_points = frozenset(self.rng_s.randrange(0, 120) for _ in range(d))
            self.prio = {}

    # -- event hook ---------------------------------------------------------
    def on_event(self, sched, actor, kind, path, n, mut):
        i = self.op_yields
        self.op_yields += 1
        w = self.w
        if kind == "open" and path.startswith(SIM_REMOTE_DIR + "/") and not mut:
            w.fetchlog.add("file", posixpath.basename(path), actor.name, sched.step)
            w._note_fetch("file", posixpath.basename(path))
        for ce in self.clock_events:
            if ce["op"] == self.op and ce["at"] == i:
                w.clock.advance(ce["delta"])
        action = None
        if mut:
            m = self.op_muts
            self.op_muts += 1
            if self.mut_trace is not None:
                self.mut_trace.append((self.op, m, kind, path, n, actor.name))
            c = next((x for x in self.crashes if x["op"] == self.op and x["at"] == m and not x.get("_fired")), None)
            if c is not None:
                c["_fired"] = True
                torn = None
                if kind == "write" and c.get("torn") is not None:
                    torn = int(c["torn"] * n)
                    self.torn_crashes += 1
                self.crash_fired = {"op": self.op, "at": m, "kind": kind, "path": path, "actor": actor.name,
                                    "torn": torn, "n": n}
                return ("crash", torn)
        if self.faults and kind == "write" and n > 0 and path.startswith(w.cache_dir + "/"):
            # DISK_FULL: the volume holding the cache directory is full for the whole operation - every write
            # of data there fails (downloads, temporaries, the rewrite of the configuration file)
            for f in self.faults:
                if f["kind"] == "DISK_FULL" and f["op"] == self.op:
                    if not f["_fired"]:
                        f["_fired"] = True
                        self.fired.append(dict(f, _key=None))
                    return ("raise", OSError(errno.ENOSPC, "No space left on device (injected, disk full)", path))
        if self.faults and kind in ("write", "open", "unlink", "rename"):
            key = w.key_for_path(path)
            if key is None and w.current_kind == "GET" and path.startswith(w.cache_dir + "/") \
                    and not path.endswith("file_cache_config.json") and kind != "unlink":
                # unknown file name: the key this actor is fetching.  Not for a deletion: under a file naming the
                # harness cannot read, the file being deleted may be ANOTHER entry (an eviction victim), and a refused
                # deletion there legitimately makes the request raise and forget that entry (benign variant b01, sha1
                # names, C19 19c - DESIGN 15.5 item 34)
                key = w.actor_key.get(actor.name)
            if key is not None or path.startswith(SIM_REMOTE_DIR + "/"):
                cnt_key = (kind, path)
                nth = self.per_path.get(cnt_key, 0)
                self.per_path[cnt_key] = nth + 1
                for f in self.faults:
                    if f["_fired"] or f["op"] != self.op or f["kind"] not in FS_FAULTS:
                        continue
                    if f["kind"] == "SRC_MISSING":
                        continue
                    want_kind = {"EMFILE": "open", "RENAME_EIO": "rename", "UNLINK_EACCES": "unlink"}.get(f["kind"], "write")
                    if kind != want_kind or f.get("key") != key or f.get("nth", 0) != nth:
                        continue
                    if want_kind == "open" and not mut:
                        continue
                    f["_fired"] = True
                    self.fired.append(dict(f, _key=key))
                    if f["kind"] == "EIO":
                        action = ("raise", OSError(errno.EIO, "Input/output error (injected)", path))
                    elif f["kind"] == "ENOSPC":
                        action = ("raise", OSError(errno.ENOSPC, "No space left on device (injected)", path))
                    elif f["kind"] == "EMFILE":
                        action = ("raise", OSError(errno.EMFILE, "Too many open files (injected)", path))
                    elif f["kind"] == "RENAME_EIO":
                        action = ("raise", OSError(errno.EIO, "Input/output error (injected, rename)", path))
                    elif f["kind"] == "UNLINK_EACCES":
                        # the operating system refuses to delete a file (EACCES/EPERM/EBUSY: an immutable flag, a
                        # sharing violation, an NFS hiccup) - an error return, the process lives on
                        action = ("raise", PermissionError(errno.EACCES, "Permission denied (injected, unlink)", path))
                    else:
                        action = ("short", max(0, int(f.get("frac", 0.5) * n)))
                    break
        return action

    def take_fault(self, kinds, key=None, res=None):
        """Used by the resource / network / callback stubs: consume a planned fault for this op."""
        for f in self.faults:
            if (f["_fired"] and not f.get("persist")) or f["op"] != self.op or f["kind"] not in kinds:
                continue
            if f.get("key") is not None and key is not None and f["key"] != key:
                continue
            if f.get("key") is not None and key is None:
                if res is None or self.w.keys[f["key"]]["res"] != res:
                    continue
            if f["_fired"]:
                # a persistent fault (the remote stays down for the whole operation): fires again, for an
                # implementation that retries, without being counted twice
                self.w.stats["probes"]["persistent_fault_refired"] = self.w.stats["probes"].get("persistent_fault_refired", 0) + 1
                return f
            f["_fired"] = True
            # _key None = the stub could not tell which key this call served (unknown file naming): the oracle
            # then treats every requested key of that resource as possibly failed
            self.fired.append(dict(f, _key=key))
            return f
        return None

    def tick(self, sched, actor):
        self.w.clock.tick(self.rng_c)

    def pick(self, sched, runnable, current):
        self.op_decisions += 1
        nxt = self._pick(runnable, current)
        self.choices_rec.setdefault(str(self.op), []).append(nxt.name)
        return nxt

    @staticmethod
    def _pool_no(name):
        if name[:1] in ("p", "e") and "w" in name:
            try:
                return int(name[1:name.index("w")])
            except ValueError:
                return 0
        return 0

    def _pick(self, runnable, current):
        if self.explicit is not None:
            if self.explicit_i < len(self.explicit):
                name = self.explicit[self.explicit_i]
                self.explicit_i += 1
                if name != "=":
                    for a in runnable:
                        if a.name == name:
                            return a
            return current if current in runnable else runnable[0]
        pol = self.op_policy
        if pol == "none" or pol == "stay":
            return current if current in runnable else runnable[0]
        rng = self.rng_s
        if pol == "uniform":
            return runnable[rng.randrange(len(runnable))]
        if pol == "sticky":
            p = self.sched_knob.get("p", 0.9)
            if current in runnable and rng.random() < p:
                return current
            others = [a for a in runnable if a is not current] or runnable
            return others[rng.randrange(len(others))]
        if pol == "straggler":
            # workers of earlier pools (left-overs of a failed request) are slow: they mostly run only when
            # nobody else can; this keeps them alive across the caller's following operations
            newest = max((self._pool_no(a.name) for a in runnable), default=0)
            fresh = [a for a in runnable if a.is_client or self._pool_no(a.name) == newest]
            old = [a for a in runnable if a not in fresh]
            if old and (not fresh or rng.random() < self.sched_knob.get("q", 0.1)):
                return old[rng.randrange(len(old))]
            if current in fresh and rng.random() < 0.5:
                return current
            return fresh[rng.randrange(len(fresh))]
        if pol == "pct":
            for a in runnable:
                if a.name not in self.prio:
                    self.prio[a.name] = rng.random() + 1.0
            if self.op_decisions in self.pct_points and current.name in self.prio:
                self.prio[current.name] = rng.random() * 0.001 * (1 + len(self.pct_points))
            return max(runnable, key=lambda a: (self.prio[a.name], -a.idx))
        raise ValueError("unknown scheduling policy %r" % pol)


class Obs(dict):
    __getattr__ = dict.get


class World:
    def __init__(self, record, oracle_factory=None, record_mut_trace=False, keep_log=True, canary=None):
        self.record = record
        self.knobs = k = record["knobs"]
        self.keys = k["keys"]
        self.prop = record.get("property", "C18")
        self.oracle_factory = oracle_factory
        self.canary = canary
        ck = k.get("clock") or {"policy": "fine", "gran": 1}
        self.clock = SimClock(ck.get("policy", "fine"), ck.get("gran", 1), EPOCH0)
        self.director = RunDirector(self, record)
        if record_mut_trace:
            self.director.mut_trace = []
        self.sched = Sched(self.director, step_cap=k.get("step_cap", 300_000 if k.get("mass_eviction") else 60_000), log_events=keep_log)
        self.sched.clock = self.clock
        self.fs = SimFS(self.clock, self.sched, atime_policy=k.get("atime", "relatime"),
                        listing=k.get("listing", "sorted"), rng=random.Random(mix(record["seed"], "fs")),
                        buffer_size=k.get("bufsize", 8192))
        self.fs.fd_limit = k.get("fd_limit")
        self.fs.sendfile_cap = k.get("sendfile_cap")
        self.store = Store()
        for r, size in sorted(k["res_sizes"].items()):
            self.store.put(r, size)
        self.fetchlog = FetchLog()
        self.key_of_path = {}
        self.path_of_key = {}
        # a relative cache path resolves against the simulated process' working directory
        self.cwd = "/SIMFS/cwd" if (k.get("relative_path") or k.get("tilde_path")) else None
        self.cache_dir = (self.cwd + "/" if self.cwd else "/SIMFS/") + k.get("cache_dir", "cache")
        self.cache_arg = k.get("cache_dir", "cache") if self.cwd else self.cache_dir
        if k.get("tilde_path"):
            # "~/<dir>": HOME points into the simulated file system for the duration of the run
            self.cache_dir = "/SIMFS/home/" + k.get("cache_dir", "cache")
            self.cache_arg = "~/" + k.get("cache_dir", "cache")
        self.cache_real_dir = None
        if k.get("cache_dir_link") and not self.cwd:
            # the cache directory is reached through a symbolic link (~/.cache -> /scratch/...): the user names the
            # link, the files live elsewhere
            self.cache_real_dir = "/SIMFS/volumes/scratch0/cachedata"
            self.fs.h_mkdirs(self.cache_real_dir)
            self.fs.h_mkdirs(posixpath.dirname(self.cache_dir))
            self.fs.h_symlink(self.cache_real_dir, self.cache_dir)
        for i, kd in enumerate(self.keys):
            p = self.cache_dir + "/" + cache_file_name(kd)
            self.key_of_path[p] = i
            self.path_of_key[i] = p
        self.key_of_md5 = {posixpath.basename(p)[10:42]: i for p, i in self.key_of_path.items()}
        self.uris = [key_uri(kd) for kd in self.keys]
        self.cache = None
        self.validator_policy = {"mode": "accept"}
        self.validator_calls = []
        self.pp_calls = []
        self.wrong_directive = None
        self.incarnation = 0
        self.violation = None
        self.harness = None
        self.obs_list = []
        self.oracle = None
        self.stats = {"ops": 0, "gets": 0, "crashes": 0, "reopens": 0, "fired": {}, "planned": {},
                      "zombie_ops": 0, "evictions": 0, "hits": 0, "misses": 0, "probes": {}}
        if self.cache_real_dir:
            self.stats["probes"]["cache_dir_is_symlink"] = 1
        self.results = []  # (op id, normalised outcome) of every GET: what the caller saw
        self.abstract_states = set()
        self.miss_log = {}
        self.current_req = []
        self.current_kind = None
        self.chain_busy = False
        self.in_dispatch = False  # line-level pre-emption only inside operations, never while the harness observes
        self.actor_key = {}  # actor name -> key whose fetch that actor started last (fallback fault addressing)
        self.chunk = k.get("chunk", 4096)

    # ------------------------------------------------------------------ setup
    def _patch_modules(self):
        import ocean_science_utilities.filecache.cache_object as co
        import ocean_science_utilities.filecache.remote_resources as rr
        import ocean_science_utilities.filecache.filecache as fc
        self.co, self.rr, self.fc = co, rr, fc
        # (a module that no longer imports one of these names simply has nothing to replace there: the library-level
        # seams below - multiprocessing.pool, concurrent.futures, threading - still hold)
        self._saved = {
            "ThreadPool": getattr(co, "ThreadPool", None), "tqdm": getattr(co, "tqdm", None),
            "requests": getattr(rr, "requests", None),
        }
        if self._saved["ThreadPool"] is not None:
            co.ThreadPool = simpool.SimPool
        if self._saved["tqdm"] is not None:
            co.tqdm = _QuietTqdm
        if self._saved["requests"] is not None:
            rr.requests = RequestsShim(self)
        import multiprocessing.pool as mpp
        import concurrent.futures as cf
        import concurrent.futures.thread as cft
        import threading
        self._saved["mpp.ThreadPool"] = mpp.ThreadPool
        mpp.ThreadPool = simpool.SimPool
        self._saved["cf"] = (cf.ThreadPoolExecutor, cft.ThreadPoolExecutor, cf.as_completed, cf.wait, threading.Thread)
        cf.ThreadPoolExecutor = simpool.SimExecutor
        cft.ThreadPoolExecutor = simpool.SimExecutor
        cf.as_completed = simpool.sim_as_completed
        cf.wait = simpool.sim_wait
        threading.Thread = simpool.SimThread
        fc._ACTIVE_FILE_CACHES.clear()
        # names the modules bound with "from X import Y" at import time still point at the real objects: rebind
        # them, whatever they are called there
        real_tpe, _real_tpe2, real_asc, real_wait, _real_thread = self._saved["cf"]
        shim = RequestsShim(self)
        try:
            import tqdm as _tqdm_mod
            import tqdm.auto as _tqdm_auto
            real_tqdms = {id(_tqdm_mod.tqdm), id(_tqdm_auto.tqdm), id(getattr(_tqdm_mod, "trange", None))}
        except Exception:  # pragma: no cover
            _tqdm_mod, real_tqdms = None, set()
        import requests as _real_requests
        swaps = [(real_tpe, simpool.SimExecutor), (real_asc, simpool.sim_as_completed), (real_wait, simpool.sim_wait),
                 (self._saved["mpp.ThreadPool"], simpool.SimPool), (_real_requests, shim),
                 (_real_requests.get, shim.get), (_real_requests.api.get, shim.get), (_real_requests.head, shim.head),
                 (_real_requests.request, shim.request), (_real_requests.Session, shim.Session),
                 (_real_requests.session, shim.Session)]
        self._from_saved = []
        for m in (co, rr, fc):
            for name, val in list(m.__dict__.items()):
                if name.startswith("__"):
                    continue
                new = None
                for real, sim in swaps:
                    if val is real:
                        new = sim
                        break
                if new is None and id(val) in real_tqdms and val is not None:
                    new = _QuietTqdm
                if new is None and _tqdm_mod is not None and val is _tqdm_mod:
                    new = _TqdmModule
                if new is not None:
                    self._from_saved.append((m, name, val))
                    setattr(m, name, new)
        self._dt_saved = [(m, interpose.patch_datetime_in(m)) for m in (co, rr, fc)]
        self._sync_saved = [(m, simsync.patch_sync_in(m, self._saved["cf"][4])) for m in (co, rr, fc)]
        self.sim_resource = build_sim_resource(self)
        self.chain_resource = build_sim_resource(self, prefix="chain://", chained=True)
        self.private_resource = build_sim_resource(self, prefix="sim://", private=True)

    def _unpatch_modules(self):
        for m, name, val in getattr(self, "_from_saved", []):
            setattr(m, name, val)
        for m, saved in self._dt_saved + self._sync_saved:
            for name, val in saved:
                setattr(m, name, val)
        if self._saved["ThreadPool"] is not None:
            self.co.ThreadPool = self._saved["ThreadPool"]
        if self._saved["tqdm"] is not None:
            self.co.tqdm = self._saved["tqdm"]
        if self._saved["requests"] is not None:
            self.rr.requests = self._saved["requests"]
        import multiprocessing.pool as mpp
        import concurrent.futures as cf
        import concurrent.futures.thread as cft
        import threading
        mpp.ThreadPool = self._saved["mpp.ThreadPool"]
        cf.ThreadPoolExecutor, cft.ThreadPoolExecutor, cf.as_completed, cf.wait, threading.Thread = self._saved["cf"]
        self.fc._ACTIVE_FILE_CACHES.clear()

    def _new_process_state(self):
        """module-level state of the code under test (registries, locks) does not survive a process"""
        for m in (self.co, self.rr, self.fc):
            simsync.reset_module_state(m)

    def _resources(self):
        if self.knobs.get("default_resources") and all(k["scheme"] in ("https", "file") for k in self.keys):
            # the caller passes no resources: the cache builds its default list (https:// and file://)
            self.stats["probes"]["opened_with_default_resources"] = self.stats["probes"].get("opened_with_default_resources", 0) + 1
            return None
        # the private store comes first and shares the sim:// prefix; it claims only sim://private/...
        return [self.private_resource, self.sim_resource, self.rr.RemoteResourceHTTPS(), self.rr.RemoteResourceLocal(),
                self.chain_resource]

    def chain_download(self, uri, filepath, NotFound):
        """chain://: the object is obtained through the SECOND named cache (a 'raw' cache feeding a 'derived'
        one): a nested request on another cache of the same process while this cache's request is in progress"""
        res = uri.split("://", 1)[1].split("/", 1)[1]
        self._note_fetch("chain", res.split("<<")[0], self._attribute_key(filepath, res))
        if not (self.knobs.get("second_cache") and self.knobs.get("api") == "module" and self.fc.exists(OTHER_NAME)):
            # no second cache in this configuration: the object comes straight from the store
            return self.sim_download("sim://bucket/" + res, filepath, NotFound)
        # FileCache objects are not meant to be called from several threads at once (out of scope, DESIGN 13):
        # the user's chained resource serialises its requests on the second cache with a lock
        me = self.sched.owner()
        self.sched.wait(lambda: self.chain_busy in (False, me), "chain.lock")
        held = self.chain_busy == me
        self.chain_busy = me
        try:
            # (under its own comment suffix: the second cache may also hold this object post-processed for
            # direct requests, and directives are not part of a cache file's identity)
            paths = self.fc.filepaths(["sim://bucket/" + res + "<<chainraw"], OTHER_NAME)
        finally:
            if not held:
                self.chain_busy = False
        if not paths:
            raise NotFound("chained object %s not found" % uri)
        with open(paths[0], "rb") as f:
            data = f.read()
        with open(filepath, "wb") as f:
            f.write(data)
        return True

    _MD5 = re.compile(r"[0-9a-f]{32}")

    def key_for_path(self, path):
        """The key a file in the cache directory belongs to: its final cache path, or any other name in
        the cache directory that embeds the key's md5 (temporary names used while downloading)."""
        key = self.key_of_path.get(path)
        if key is not None:
            return key
        if getattr(self, "oracle", None) is not None:
            # file names that do not follow the documented scheme: what earlier requests returned for which key
            key = self.oracle.owner_of_path.get(path)
            if key is not None:
                return key
        if path.startswith(self.cache_dir + "/"):
            m = self._MD5.search(posixpath.basename(path))
            if m:
                return self.key_of_md5.get(m.group(0))
        return None

    # ------------------------------------------------------- remote side stubs
    def _note_fetch(self, scheme, res, key=None):
        """remember which key the calling actor is fetching (used to address file-system faults when the
        file name itself does not tell, e.g. mkstemp-style temporaries)"""
        actor = self.sched.owner()
        if key is None:
            taken = set(self.actor_key.values())
            cands = [k for k in self.current_req if self.keys[k]["scheme"] == scheme and self.keys[k]["res"] == res]
            free = [k for k in cands if k not in taken]
            key = (free or cands or [None])[0]
        self.actor_key[actor] = key
        return key

    def _key_from_content(self, filepath):
        """Fallback attribution when file names do not follow the documented scheme: the self-describing
        content names its resource; among the keys of the current request that resource is usually unique."""
        node = self.fs.h_node(filepath)
        if node is None or node.kind != "f":
            return None
        data, _ppname = unpostprocess(bytes(node.data))
        if not data.startswith(b"SIM1|"):
            return None
        try:
            res = data.split(b"|", 2)[1].decode("utf-8", "surrogateescape")
        except Exception:
            return None
        cands = [k for k in self.current_req if self.keys[k]["res"] == res]
        cands = sorted(set(cands))
        if len(cands) == 1:
            return cands[0]
        return None

    def abs(self, path):
        if self.cwd and isinstance(path, str) and not path.startswith("/"):
            return posixpath.normpath(posixpath.join(self.cwd, path))
        return path

    def _attribute_key(self, filepath, res):
        filepath = self.abs(filepath)
        key = self.key_for_path(filepath)
        if key is not None:
            return key
        key = self._key_from_content(filepath)
        if key is not None:
            return key
        # best effort when the code downloads to a temporary name: look up the call stack for an object
        # or string that names a final cache path
        f = sys._getframe(2)
        depth = 0
        while f is not None and depth < 12:
            for v in list(f.f_locals.values()):
                fp = getattr(v, "filepath", None)
                if isinstance(fp, str) and fp in self.key_of_path:
                    return self.key_of_path[fp]
                if isinstance(v, str) and v in self.key_of_path:
                    return self.key_of_path[v]
            f = f.f_back
            depth += 1
        return None

    def _err_type(self):
        """the exception class a failing user-written download function raises (varies per run)"""
        return ERR_TYPES.get(self.knobs.get("err_type", "io"), InjectedError)

    def sim_download(self, uri, filepath, NotFound):
        # the resource sees the uri literally: stripping the "<<comment" is the cache's job
        host, res = uri.split("://", 1)[1].split("/", 1)
        if host != "bucket":
            res = host + "/" + res  # sim://private/x, sim://Bucket/x: the bucket is part of the object's name
        key = self._attribute_key(filepath, res)
        self._note_fetch("sim", res.split("<<")[0], key)
        self.sched("net.req", uri, 0)
        self.fetchlog.add("sim", res, self.sched.owner(), self.sched.step)
        fault = self.director.take_fault(RES_FAULTS, key, res)
        data = self.store.current(res)
        kind = fault["kind"] if fault else None
        if data is None or kind == "NOTFOUND":
            raise NotFound("sim resource has no object %s" % uri)
        if kind == "ERR_BEFORE":
            raise self._err_type()("injected: error before the first byte of %s" % uri)
        if kind == "ERR_STOPITER":
            # e.g. a bare next() on an empty chunk iterator inside the user's download function
            raise StopIteration("injected: empty response iterator for %s" % uri)
        if kind == "RET_FALSE_BEFORE":
            # the documented protocol: "Return True on Success" - this resource reports failure by returning False
            return False
        chunk = max(self.chunk, len(data) // 24 + 1)
        pieces = [data[i:i + chunk] for i in range(0, len(data), chunk)] or [b""]
        failed_quietly = False
        sparse = bool(self.knobs.get("sparse_writer")) and res.startswith("sparse")
        if self.knobs.get("multipart") and len(pieces) > 1 and not sparse:
            return self._sim_download_multipart(uri, filepath, NotFound, pieces, kind, fault)
        with open(filepath, "wb") as f:
            for i, piece in enumerate(pieces):
                if kind in ("ERR_MID", "RET_FALSE_MID", "INTERRUPT_MID", "NOTFOUND_MID") and i == min(fault.get("k", 1), len(pieces) - 1):
                    if len(pieces) == 1:
                        f.write(piece[:len(piece) // 2])
                    if kind == "RET_FALSE_MID":
                        failed_quietly = True
                        break
                    if kind == "NOTFOUND_MID":
                        # the usual streaming pattern: the target is opened (and maybe partly written) before the
                        # remote side answers "no such object"
                        raise NotFound("sim resource lost object %s part-way" % uri)
                    if kind == "INTERRUPT_MID":
                        # the user hits Ctrl-C part-way through a (sequential) download; the signal reaches the
                        # main thread only: in a pool worker (a cache reopened asking for the other download mode)
                        # the same fault is an ordinary error
                        if self.sched.current is not self.sched.client:
                            raise self._err_type()("injected: connection lost part-way through %s" % uri)
                        raise KeyboardInterrupt()
                    raise self._err_type()("injected: connection lost part-way through %s" % uri)
                if sparse and 0 < i < len(pieces) - 1 and not piece.strip(b"\0"):
                    # a downloader that does not write runs of zero bytes (netCDF/HDF5 libraries, `cp --sparse`,
                    # rsync -S): it seeks over them and the file system leaves a hole
                    f.seek(len(piece), 1)
                    self.stats["probes"]["sparse_piece_skipped"] = self.stats["probes"].get("sparse_piece_skipped", 0) + 1
                    continue
                f.write(piece)
                self.sched("net.chunk", uri, len(piece))
        if failed_quietly:
            return False
        if kind == "ERR_AFTER":
            raise self._err_type()("injected: error after the last byte of %s" % uri)
        if self.knobs.get("ret_style", "true") == "none":
            return None  # many user-written download functions simply do not return anything
        return True

    def _sim_download_multipart(self, uri, filepath, NotFound, pieces, kind, fault):
        """A download function that fetches the object in parts and appends each part with its own open(..., 'ab')
        (the first with 'wb'): the target is re-opened in a creating mode several times during one attempt."""
        for i, piece in enumerate(pieces):
            if kind in ("ERR_MID", "RET_FALSE_MID", "INTERRUPT_MID", "NOTFOUND_MID") and i == min(fault.get("k", 1), len(pieces) - 1):
                if kind == "RET_FALSE_MID":
                    return False
                if kind == "NOTFOUND_MID":
                    raise NotFound("sim resource lost object %s part-way" % uri)
                if kind == "INTERRUPT_MID" and self.sched.current is self.sched.client:
                    raise KeyboardInterrupt()
                raise self._err_type()("injected: connection lost part-way through %s" % uri)
            with open(filepath, "wb" if i == 0 else "ab") as f:
                f.write(piece)
            self.sched("net.chunk", uri, len(piece))
        if kind == "ERR_AFTER":
            raise self._err_type()("injected: error after the last byte of %s" % uri)
        if self.knobs.get("ret_style", "true") == "none":
            return None
        return True

    def http_get(self, url, **kwargs):
        import requests as _rq
        res = url.split("://", 1)[1].split("/", 1)[1]
        self._note_fetch("https", res.split("<<")[0])
        self.sched("net.req", url, 0)
        self.fetchlog.add("https", res, self.sched.owner(), self.sched.step)
        fault = self.director.take_fault(NET_FAULTS, None, res)
        kind = fault["kind"] if fault else None
        if kind == "CONN_ERR":
            raise _rq.exceptions.ConnectionError("injected: connection refused")
        if kind == "TIMEOUT":
            raise _rq.exceptions.Timeout("injected: timed out")
        data = self.store.current(res)
        if kind == "HTTP_5XX":
            # (which 5xx / 4xx exactly: drawn with the fault - code that special-cases one status must meet it)
            return FakeResponse(url, int(fault.get("status", 503)), b"unavailable", self)
        if kind == "HTTP_404":
            return FakeResponse(url, int(fault.get("status", 404)), b"not found", self)
        if data is None:
            return FakeResponse(url, 404, b"not found", self)
        status, body = 200, data
        rng_hdr = (kwargs.get("headers") or {}).get("Range")
        if rng_hdr and self.knobs.get("http_range", True):
            # a server that honours Range answers 206 with the rest; one that does not sends the whole object
            try:
                start = int(rng_hdr.split("=")[1].split("-")[0])
                status, body = 206, data[start:]
            except (ValueError, IndexError):
                pass
        drop = None
        if kind == "HTTP_DROP_MID":
            drop = fault.get("k", 1)  # the connection breaks after this many pieces of the body
        # a server that compresses on the fly does so whenever the client accepts it (requests always offers
        # gzip unless the caller overrides Accept-Encoding) and the object is compressible text (here: odd names)
        accept = (kwargs.get("headers") or {}).get("Accept-Encoding", "gzip, deflate")
        gz = bool(self.knobs.get("http_gzip")) and "gzip" in accept and status == 200
        return FakeResponse(url, status, body, self, drop_after=drop, gzip_encoded=gz,
                            no_length=bool(self.knobs.get("http_no_length")))

    def http_head(self, url, **kwargs):
        res = url.split("://", 1)[1].split("/", 1)[1]
        self.sched("net.req", url, 0)
        data = self.store.current(res)
        if data is None:
            return FakeResponse(url, 404, b"", self)
        accept = (kwargs.get("headers") or {}).get("Accept-Encoding", "gzip, deflate")
        gz = bool(self.knobs.get("http_gzip")) and "gzip" in accept
        r = FakeResponse(url, 200, data, self, gzip_encoded=gz, no_length=bool(self.knobs.get("http_no_length")))
        r._content = b""
        r.raw = type(r.raw)(r, b"")
        return r

    def _named(self, directive, name):
        """a fresh function object for the directive function registered under `name` (a user who swaps an
        implementation registers a new object; the semantics belong to the name)"""
        if directive == "postprocess":
            return lambda filepath: self._pp(filepath, name)
        return lambda filepath: self._validate(filepath, name)

    def _register_directives(self, setter):
        """everything this user registers on a cache: the directive functions the uris of the run name, plus
        (in runs with several names) one that no uri names"""
        names = {("postprocess", "pp"), ("validate", "v")}
        for kd in self.keys:
            if kd.get("pp"):
                names.add(("postprocess", kd.get("ppn", "pp")))
            names.add(("validate", kd.get("vn", "v")))  # (a single request may add the directive to any uri)
        if len(names) > 2:
            names |= {("postprocess", "unused"), ("validate", "unused")}
        order = sorted(names)
        if self.knobs.get("dir_order_rev"):
            order.reverse()
        for d, n in order:
            setter(d, n, self._named(d, n))

    def _pp(self, filepath, name="pp"):
        key = self._attribute_key(filepath, None)
        if key is not None:
            self.actor_key[self.sched.owner()] = key
        self.pp_calls.append((self.director.op, key, self.abs(filepath)))
        fault = self.director.take_fault(PP_FAULTS, key, None)
        kind = fault["kind"] if fault else None
        if kind == "PP_ERR_BEFORE":
            raise self._err_type()("injected: post-processor failed before writing")
        if kind == "PP_NOTFOUND":
            # the post-processor needs a side-car object (an index, a mask) from the same store and that one is
            # missing: the store's own not-found exception comes out of the post-processing step
            from ocean_science_utilities.filecache.remote_resources import _RemoteResourceUriNotFound
            raise _RemoteResourceUriNotFound("injected: side-car object needed by the post-processor not found")
        with open(filepath, "rb") as f:
            data = f.read()
        out = postprocess_bytes(data, name)
        half = len(out) // 2
        with open(filepath, "wb") as f:
            f.write(out[:half])
            f.flush()
            if kind == "PP_ERR_MID":
                raise self._err_type()("injected: post-processor failed part-way")
            if kind == "PP_INTERRUPT_MID":
                if self.sched.current is not self.sched.client:
                    raise self._err_type()("injected: post-processor failed part-way")
                raise KeyboardInterrupt()
            f.write(out[half:])
        if kind == "PP_ERR_AFTER":
            raise self._err_type()("injected: post-processor failed after writing")
        if kind == "PP_NOTFOUND_AFTER":
            from ocean_science_utilities.filecache.remote_resources import _RemoteResourceUriNotFound
            raise _RemoteResourceUriNotFound("injected: side-car object needed by the post-processor not found (after rewriting)")
        return None

    def _validate(self, filepath, name="v"):
        key = self._attribute_key(filepath, None)
        if key is not None and self.keys[key].get("vn", "v") != name and self.wrong_directive is None:
            # the uri names one validator and the cache called another registered one
            self.wrong_directive = (self.director.op, key, name)
        fault = self.director.take_fault(VAL_FAULTS, key, None)
        kind = fault["kind"] if fault else None
        verdict = True
        mode = self.validator_policy.get("mode", "accept")
        if kind == "VALIDATE_IOERROR":
            self.validator_calls.append((self.director.op, key, "ioerror"))
            # IOError is OSError: a validator that cannot read its file raises any of its subclasses
            raise {"fnf": FileNotFoundError, "perm": PermissionError, "timeout": TimeoutError, "isdir": IsADirectoryError}.get(
                self.knobs.get("val_ioerror_class"), IOError)("injected: validator cannot read")
        if kind == "VALIDATE_RAISE":
            # a bug in the user's validator: not an IOError, so the request fails; entries rejected earlier in
            # the same request must not be left behind as servable hits
            self.validator_calls.append((self.director.op, key, "raised"))
            raise ValueError("injected: validator crashed")
        if kind == "VALIDATE_FALSE":
            verdict = False
        elif mode == "current" and key is not None:
            with open(filepath, "rb") as f:
                data = f.read()
            verdict = data == self.expected_bytes(key)
        elif mode == "current":
            # the key could not be told (unknown file naming, same resource under several comments): the
            # self-describing content says which resource and version the file holds
            with open(filepath, "rb") as f:
                data = f.read()
            raw = unpostprocess(data)[0]
            if raw.startswith(b"SIM1|"):
                try:
                    cur = self.store.current(raw.split(b"|", 2)[1].decode("utf-8", "surrogateescape"))
                    verdict = cur is not None and raw == cur
                except Exception:  # noqa: BLE001 - not parseable: accepted, as before
                    pass
        self.validator_calls.append((self.director.op, key, verdict))
        # validators written by users return whatever their expression yields: bool, int, numpy.bool_
        style = self.knobs.get("val_style", "bool")
        if style == "int":
            return 1 if verdict else 0
        if style == "numpy":
            import numpy
            return numpy.bool_(verdict)
        return verdict

    # --------------------------------------------------------------- helpers
    def expected_bytes(self, key, version=None):
        kd = self.keys[key]
        if version is None:
            data = self.store.current(kd["res"])
        else:
            data = self.store.versions[kd["res"]][version]
        if data is None:
            return None
        return postprocess_bytes(data, kd.get("ppn", "pp")) if kd.get("pp") else data

    def acceptable_bytes(self, key):
        kd = self.keys[key]
        out = []
        for data in self.store.all_versions(kd["res"]):
            out.append(postprocess_bytes(data, kd.get("ppn", "pp")) if kd.get("pp") else data)
        return out

    def resolve_foreign(self, name):
        """'@k<i>' inside a foreign-file name stands for the cache file name of key i (a user file such as
        a backup copy 'cachefile_<md5>_cachefile.bak' or 'old-cachefile_<md5>_cachefile')."""
        m = re.search(r"@k(\d+)", name)
        if m:
            i = int(m.group(1)) % len(self.keys)
            name = name.replace(m.group(0), cache_file_name(self.keys[i]))
        return name

    def sync_remote_files(self):
        """file:// sources mirror the store."""
        self.fs.h_mkdirs(SIM_REMOTE_DIR)
        for r in sorted(self.store.versions):
            p = SIM_REMOTE_DIR + "/" + r
            cur = self.store.current(r)
            node = self.fs.h_node(p)
            if cur is None:
                if node is not None:
                    parent, name = self.fs._lookup(p, want_parent=True)
                    del parent.children[name]
            elif node is None or bytes(node.data) != cur:
                self.fs.h_mkdirs(posixpath.dirname(p))
                if node is not None:
                    # a new version REPLACES the object atomically (new inode): a copy that is in flight keeps
                    # reading the old one, like a reader of a file that was renamed over
                    parent, name = self.fs._lookup(p, want_parent=True)
                    del parent.children[name]
                self.fs.h_write(p, cur)

    def snapshot_dir(self):
        """name -> (kind, size, atime, mtime, bytes) for everything directly or indirectly in the cache dir."""
        out = {}
        for p, kind, size, at, mt, data, ino, gen in self.fs.h_tree(self.cache_dir):
            if kind == "l":
                b = posixpath.basename(p)
                if b.startswith("cachefile_") and b.endswith("_cachefile") and posixpath.dirname(p) == self.cache_dir:
                    # a cache file that is a symbolic link (a user pre-seeded the cache with a link to their own
                    # copy): reported as stat() sees it - size, stamps, bytes and identity of the file it names
                    t = self.fs.h_node(p)
                    if t is not None and t.kind == "f":
                        out[p] = ("f", len(t.data), t.atime, t.mtime, bytes(t.data), t.ino, t.gen)
                        continue
            out[p] = (kind, size, at, mt, data, ino, gen)
        return out

    def canon(self, p):
        """a path inside the real directory behind a symbolic-link cache directory, named through the link"""
        real = getattr(self, "cache_real_dir", None)
        if real and isinstance(p, str) and p.startswith(real + "/"):
            return self.cache_dir + p[len(real):]
        return p

    def other_limit(self):
        try:
            if self.knobs.get("second_cache") and self.fc.exists(OTHER_NAME):
                return self.fc.get_cache(OTHER_NAME).config.max_size_bytes
        except Exception:
            pass
        return None

    def snapshot_other(self):
        if not self.knobs.get("second_cache"):
            return None
        return {p: (kind, size, data) for p, kind, size, at, mt, data, ino, gen in self.fs.h_tree(OTHER_DIR)
                if not p.endswith(".part")}

    def busy_workers(self):
        return simpool.busy_total()

    # ------------------------------------------------------------- cache API
    def _open_cache(self, size_bytes, evict, parallel, allow_missing):
        size_gb = size_bytes / 1e9
        if self.knobs.get("size_arg_int_zero"):
            # the caller passes a whole number of GB as an int (the library's own default is the int 5): here 0, "keep
            # nothing beyond the current request" - every request then enlarges the limit to fit
            size_gb = 0
        if self.knobs.get("api", "object") == "module":
            self.fc._ACTIVE_FILE_CACHES.clear()
            self.fc.create_cache(CACHE_NAME, self.cache_arg, cache_size_GB=size_gb, do_cache_eviction_on_startup=evict,
                                 download_in_parallel=parallel, resources=self._resources())
            self.cache = self.fc.get_cache(CACHE_NAME)
            self._register_directives(lambda d, n, f: self.fc.set_directive_function(d, n, f, CACHE_NAME))
            if self.knobs.get("second_cache"):
                # another named cache of the same process, in its own directory
                self.fc.create_cache(OTHER_NAME, OTHER_DIR, cache_size_GB=self.knobs.get("other_max", 10**9) / 1e9,
                                     resources=self._resources())
                self._register_directives(lambda d, n, f: self.fc.set_directive_function(d, n, f, OTHER_NAME))
        else:
            self.cache = self.co.FileCache(self.cache_arg, size_GB=size_gb, do_cache_eviction_on_startup=evict,
                                           resources=self._resources(), parallel=parallel,
                                           allow_for_missing_files=allow_missing)
            self._register_directives(self.cache.set_directive_function)
        self.cache.disable_progress_bar = True

    def _get(self, uris):
        if self.knobs.get("api", "object") == "module":
            return self.fc.filepaths(uris, CACHE_NAME)
        return self.cache[uris]

    def _remove(self, uri, shape=None):
        if self.knobs.get("api", "object") == "module":
            arg = uri
            if shape == "list":
                arg = [uri]
            elif shape == "generator":
                arg = (u for u in [uri])  # delete_files accepts any Iterable[str]
            return self.fc.delete_files(arg, CACHE_NAME, error_if_not_in_cache=False)
        return self.cache.remove(uri)

    def _purge(self):
        if self.knobs.get("api", "object") == "module":
            # module-level API: delete_cache purges and forgets the named cache; a new one is created on the
            # same directory right away (which also exercises adoption of an emptied directory)
            self.fc.delete_cache(CACHE_NAME)
            self.cache = None
            self._open_cache(self.knobs["max_bytes"], False, self.knobs.get("parallel", False),
                             self.knobs.get("allow_missing", True))
            return None
        return self.cache.purge()

    # ---------------------------------------------------- fine-grained mode
    def _install_tracer(self):
        """Pre-emption at every source line of the file-cache package (not only at simulated I/O) while
        more than one actor is alive: makes check-then-act races on shared Python state reachable."""
        import threading
        prefix = posixpath.dirname(self.co.__file__) + "/"
        sched = self.sched

        def local(frame, event, arg):
            if event == "line" and sched.current is not None and not sched.crashed and self.in_dispatch:
                if len(sched.actors) > 1 and sched.live_workers():
                    sched("line", "%s:%d" % (posixpath.basename(frame.f_code.co_filename), frame.f_lineno), 0)
            return local

        def tracer(frame, event, arg):
            if event == "call" and frame.f_code.co_filename.startswith(prefix):
                return local
            return None

        self._tracer = tracer
        threading.settrace(tracer)
        sys.settrace(tracer)

    def _remove_tracer(self):
        import threading
        threading.settrace(None)
        sys.settrace(None)
        self._tracer = None

    # ------------------------------------------------------------------- run
    def run(self):
        gc_was = gc.isenabled()
        gc.disable()
        import os as _os
        import time as _t
        tz_was = _os.environ.get("TZ")
        _os.environ["TZ"] = self.knobs.get("tz", "UTC")  # the process' time zone is part of the configuration
        _t.tzset()
        import tempfile as _tf
        tmp_was = _tf.tempdir
        _tf.tempdir = "/SIMFS/tmp"  # the system temp directory lives in the simulated world too
        if self.knobs.get("tmp_other_device", True):
            self.fs.other_device_prefix = "/SIMFS/tmp"
        home_was = _os.environ.get("HOME")
        if self.knobs.get("tilde_path"):
            _os.environ["HOME"] = "/SIMFS/home"
        interpose.bind(self.fs, self.sched, self.clock, entropy_seed=mix(self.record["seed"], "entropy"), cwd=self.cwd)
        # the clock the process reads (time.time, datetime.now) and the clock that stamps files (the file server's)
        # need not agree: an NFS/SMB server a few seconds ahead or behind is ordinary
        interpose._STATE["proc_skew"] = int(self.knobs.get("proc_clock_skew_ns", 0))
        simpool.bind(self.sched)
        self._patch_modules()
        if self.canary is not None:
            self.canary.apply(self)
        warnings_ctx = warnings.catch_warnings()
        warnings_ctx.__enter__()
        # (a process may run with warnings turned into errors: python -W error, pytest filterwarnings=error)
        warnings.simplefilter("error" if (self.prop == "C19" and self.knobs.get("warnings_error")) else "ignore")
        # the package logger: WARNING by default, DEBUG in a process whose user called tools.log.set_level("debug") /
        # set_log_to_file(..., DEBUG) - an ambient setting like the time zone; it must not change what the cache does
        import logging as _logging
        _plog = getattr(self.co, "logger", None) or _logging.getLogger("ocean_science_utilities.tools")
        _plog_level = _plog.level
        _plog.setLevel(_logging.DEBUG if self.knobs.get("log_debug") else _logging.WARNING)
        self.sched.attach_client()
        self._tracer = None
        if self.knobs.get("fine_grained"):
            self._install_tracer()
        try:
            self._run_inner()
        except HarnessAbort as e:
            if str(e).startswith("deadlock") and self.sched.client.state == "B" and self.violation is None:
                # every actor of the code under test is blocked and nothing can ever wake them: the operation
                # will never return.  Deterministic and replayable, so it is reported as a violation (the
                # properties presuppose that a request returns), not as a harness problem.
                clause = "19d-deadlock" if self.prop == "C19" else "18a-deadlock"
                self.violation = (self.prop, clause, "the operation never returns: %s" % e, self.director.op)
            else:
                self.harness = "abort: %s" % e
        except SimUnsupported as e:
            self.harness = "unsupported: %s" % e
        finally:
            try:
                if self._tracer is not None:
                    self._remove_tracer()
                self._reap_quietly()
            finally:
                self.sched.detach_client()
                _plog.setLevel(_plog_level)
                warnings_ctx.__exit__(None, None, None)
                if self.canary is not None:
                    self.canary.revert(self)
                self._unpatch_modules()
                simpool.unbind()
                interpose.unbind()
                if gc_was:
                    gc.enable()
                _tf.tempdir = tmp_was
                if self.knobs.get("tilde_path"):
                    if home_was is None:
                        _os.environ.pop("HOME", None)
                    else:
                        _os.environ["HOME"] = home_was
                if tz_was is None:
                    _os.environ.pop("TZ", None)
                else:
                    _os.environ["TZ"] = tz_was
                _t.tzset()
        for a in self.sched.actors:
            if a.error is not None and self.harness is None:
                self.harness = "worker thread raised %r" % (a.error,)
        return self

    def _reap_quietly(self):
        """Make sure no simulated thread survives the run."""
        s = self.sched
        if s.live_workers():
            s.kill_all()
            try:
                s._die(s.client)
            except (SimCrash, HarnessAbort):
                pass
            s.crashed = False

    def _run_inner(self):
        k = self.knobs
        self.fs.h_mkdirs("/SIMFS")
        self.fs.h_mkdirs("/SIMFS/tmp")
        if self.cwd:
            self.fs.h_mkdirs(self.cwd)
        if self.knobs.get("tilde_path"):
            self.fs.h_mkdirs("/SIMFS/home")
        self.sync_remote_files()
        self.oracle = self.oracle_factory(self) if self.oracle_factory else None
        ops = list(self.record["ops"])
        open_op = {"id": -1, "op": "OPEN", "size": k["max_bytes"], "evict": k.get("evict_on_startup", False), "dt": 0}
        queue = [open_op] + ops
        i = 0
        while i < len(queue):
            op = queue[i]
            i += 1
            if self.cache is None and op["op"] not in ("OPEN", "REOPEN"):
                continue  # no live cache object (the last open failed): nothing to operate on
            crashed = self._exec(op)
            if self.violation or self.harness:
                return
            if crashed:
                # the next incarnation starts by reopening the same directory
                nxt = queue[i] if i < len(queue) else None
                if not (nxt and nxt["op"] == "REOPEN"):
                    queue.insert(i, {"id": "%s.r" % op["id"], "op": "REOPEN", "size": None, "evict": False, "dt": 1000,
                                     "auto": True})
        # final phase: let zombies finish, then probe every key twice (in session, and after a reopen)
        if k.get("final_probe", True) and self.cache is not None:
            self._exec({"id": "drain", "op": "DRAIN", "dt": 0})
            if self.violation or self.harness:
                return
            if self.prop == "C19" or k.get("probe_c18", False):
                if not self._probe("p1"):
                    return
                self._exec({"id": "p.r", "op": "REOPEN", "size": None, "evict": False, "dt": 1000, "auto": True})
                if self.violation or self.harness or self.cache is None:
                    return
                self._probe("p2")

    def _probe(self, tag):
        """One fault-free request per key whose resource still exists; each is an ordinary GET for the oracle."""
        for i in range(len(self.keys)):
            if self.store.current(self.keys[i]["res"]) is None:
                continue
            self._exec({"id": "%s.%d" % (tag, i), "op": "GET", "keys": [i], "dt": 1000, "probe": True})
            if self.violation or self.harness or self.cache is None:
                return False
        return True

    # -------------------------------------------------------------- one op
    def _exec(self, op):
        d = self.director
        kind = op["op"]
        self.clock.advance(op.get("dt", 0))
        d.begin_op(op["id"])
        self.current_kind = kind
        self.actor_key = {}
        if self._tracer is not None:
            sys.settrace(self._tracer)  # a SimCrash raised inside the trace function switched it off
        self.fetchlog.op = op["id"]
        self.stats["ops"] += 1
        obs = Obs(op=op, kind=kind, result=None, exc=None, crashed=False)
        obs.pre = self.snapshot_dir()
        obs.other_pre = self.snapshot_other()
        obs.busy_before = self.busy_workers()
        obs.unlink_from = len(self.fs.unlink_log)
        obs.clock_start = self.clock.stamp()
        obs.back_before = self.clock.backward_steps
        obs.step_from = self.sched.step
        obs.val_from = len(self.validator_calls)
        obs.store_versions = {r: self.store.current_version(r) for r in self.store.versions}
        obs.cfg_allow_pre = None
        if self.cache is not None and kind == "GET":
            try:
                obs.cfg_allow_pre = bool(self.cache.config.allow_for_missing_files)
            except Exception:
                obs.cfg_allow_pre = None
        crashed = False
        try:
            self.in_dispatch = True
            self._dispatch(op, obs)
        except SimCrash:
            crashed = True
        except (HarnessAbort, SimUnsupported):
            raise
        except (Exception, KeyboardInterrupt) as e:  # the code under test raised to its caller
            obs.exc = e
        finally:
            self.in_dispatch = False
        if self.sched.crashed and not crashed:
            # the crash exception was replaced or swallowed on its way up (e.g. by an error raised from a
            # close() during unwinding): the process is dead all the same
            crashed = True
            obs.exc = None
            obs.result = None
        if crashed:
            obs.crashed = True
            self.stats["crashes"] += 1
            if self.stats["crashes"] == 2:
                self.stats["probes"]["second_crash_in_one_history"] = self.stats["probes"].get("second_crash_in_one_history", 0) + 1
            if kind in ("OPEN", "REOPEN"):
                self.stats["probes"]["crash_while_reopening"] = self.stats["probes"].get("crash_while_reopening", 0) + 1
            self.fs.h_force_close_owned_by({a.name for a in self.sched.actors})
            self.fs.fds.clear()
            self.sched.new_epoch()
            simpool.forget_pools()
            self.cache = None
            self.fc._ACTIVE_FILE_CACHES.clear()
            self._new_process_state()
            self.incarnation += 1
            interpose._STATE["incarnation"] = self.incarnation
            obs.crash_info = d.crash_fired
        obs.fired = list(d.fired)
        for f in obs.fired:
            self.stats["fired"][f["kind"]] = self.stats["fired"].get(f["kind"], 0) + 1
        obs.post = self.snapshot_dir()
        obs.clock_end = max(self.clock.max_seen, self.clock.now)
        obs.other_post = self.snapshot_other()
        obs.other_limit = self.other_limit()
        obs.busy_after = self.busy_workers()
        obs.unlinks = self.fs.unlink_log[obs.unlink_from:]
        if self.cache_real_dir:
            obs.unlinks = [(self.canon(u[0]),) + tuple(u[1:]) for u in obs.unlinks]
        obs.fetches = self.fetchlog.in_op(op["id"])
        obs.back_in_op = self.clock.backward_steps - obs.back_before
        obs.validator_calls = self.validator_calls[obs.val_from:]
        if self.cache is not None:
            try:
                if self.knobs.get("undecodable_names"):
                    # uris that are not valid Unicode are asked about one by one: a cache that refuses them
                    # (UnicodeEncodeError) does not hold them
                    obs.in_cache = []
                    for u in self.uris:
                        try:
                            obs.in_cache.append(bool(self.cache.in_cache([u])[0]))
                        except UnicodeEncodeError:
                            obs.in_cache.append(False)
                else:
                    obs.in_cache = list(self.cache.in_cache(self.uris)) if self.uris else []
                obs.length = len(self.cache)
                obs.max_bytes = self.cache.config.max_size_bytes
            except Exception as e:  # observation must not fail silently
                obs.observe_error = e
        if obs.busy_after:
            self.stats["zombie_ops"] += 1
        if kind == "GET" and not crashed:
            if obs.exc is not None:
                self.results.append((op["id"], ("raised", type(obs.exc).__name__)))
            elif isinstance(obs.result, list):
                out = []
                for p in obs.result:
                    ent = obs.post.get(p) if isinstance(p, str) else None
                    out.append((p, hashlib.md5(ent[4]).hexdigest() if ent else None))
                self.results.append((op["id"], out))
            else:
                self.results.append((op["id"], ("returned", repr(obs.result))))
        cf = sorted((max(e[2], e[3]), self.key_of_path.get(p, -1)) for p, e in obs.post.items()
                    if e[0] == "f" and p in self.key_of_path)
        tot = sum(obs.post[self.path_of_key[k]][1] for _, k in cf if k >= 0)
        self.abstract_states.add(mix(tuple(k for _, k in cf), bool(obs.busy_after),
                                     min(4, (4 * tot) // max(1, self.knobs["max_bytes"])), self.cache is None)
                                 & 0xFFFFFFFFFFFF)
        if self.oracle is not None:
            v = self.oracle.check(obs)
            if v is not None:
                self.violation = v
        if self.knobs.get("keep_obs", False):
            self.obs_list.append(obs)
        return crashed

    def _dispatch(self, op, obs):
        kind = op["op"]
        k = self.knobs
        if kind in ("OPEN", "REOPEN"):
            if kind == "REOPEN":
                self.stats["reopens"] += 1
                # a new process: nothing in memory survives; zombies of the old one are gone
                if self.sched.live_workers():
                    self.sched.kill_all()
                    try:
                        self.sched._die(self.sched.client)
                    except SimCrash:
                        pass
                    self.fs.h_force_close_owned_by({a.name for a in self.sched.actors})
                    self.sched.new_epoch()
                    simpool.forget_pools()
                self.cache = None
                self._new_process_state()
                # ... with its own process id and its own string-hash salt
                self.incarnation += 1
                interpose._STATE["incarnation"] = self.incarnation
            size = op.get("size")
            if size is None:
                size = k["max_bytes"]
            try:
                par = k.get("parallel", False)
                if op.get("flip_parallel"):
                    par = not par  # the caller reopens the directory asking for the other download mode
                self._open_cache(size, op.get("evict", False), par, k.get("allow_missing", True))
            except BaseException:
                self.cache = None
                raise
            obs.result = "opened"
        elif kind == "GET":
            self.stats["gets"] += 1
            self.current_req = list(op["keys"])
            uris = [self.uris[i] for i in op["keys"]]
            if op.get("val"):
                # per-occurrence override of the validate directive (the same uri may be named with and
                # without it in one request)
                uris = []
                for pos, i in enumerate(op["keys"]):
                    ov = op["val"][pos] if pos < len(op["val"]) else None
                    uris.append(self.uris[i] if ov is None else key_uri(dict(self.keys[i], val=bool(ov))))
            arg = uris[0] if (len(uris) == 1 and op.get("as_str")) else uris
            if op.get("shape") == "tuple":
                arg = tuple(uris)
            elif op.get("shape") == "generator":
                arg = (u for u in uris)
            res = self._get(arg)
            if self.cwd and isinstance(res, list):
                # paths relative to the working directory are as good as absolute ones
                res = [posixpath.normpath(posixpath.join(self.cwd, p)) if isinstance(p, str) and not p.startswith("/") else p
                       for p in res]
            if self.cache_real_dir and isinstance(res, list):
                # the same file named through the real directory instead of through the link is as good
                res = [self.canon(p) for p in res]
            obs.result = res
        elif kind == "OTHER_GET":
            # a request to the second named cache; must not touch the first cache's directory
            if self.knobs.get("second_cache") and self.knobs.get("api") == "module" and self.fc.exists(OTHER_NAME):
                self.current_req = list(op["keys"])
                # (keys that the FIRST cache obtains through this one are plain store objects here)
                other_uris = [self.uris[i].replace("chain://", "sim://") for i in op["keys"]]
                me = self.sched.owner()
                self.sched.wait(lambda: self.chain_busy in (False, me), "chain.lock")
                held = self.chain_busy == me
                self.chain_busy = me
                try:
                    obs.result = self.fc.filepaths(other_uris, OTHER_NAME)
                finally:
                    if not held:
                        self.chain_busy = False
        elif kind == "REMOVE":
            obs.result = self._remove(self.uris[op["key"]], op.get("shape"))
        elif kind == "PURGE":
            obs.result = self._purge()
        elif kind == "DRAIN":
            self.sched.drain()
        elif kind == "TOUCH":
            import os
            p = self.path_of_key[op["key"]]
            if self.fs.h_exists(p):
                os.utime(p, None)
        elif kind == "AGE":
            import os
            p = self.path_of_key[op["key"]]
            if self.fs.h_exists(p):
                t = (self.clock.now + op["delta"])
                ta = t if op.get("delta_a") is None else self.clock.now + op["delta_a"]
                os.utime(p, ns=(ta, t))  # atime and mtime may be set independently (touch -a / touch -m)
        elif kind == "USER_READ":
            p = self.path_of_key[op["key"]]
            if self.fs.h_exists(p):
                with open(p, "rb") as f:
                    f.read()
        elif kind == "FOREIGN":
            import os
            name = self.resolve_foreign(op["name"])
            if op["name"].startswith("linkentry:"):
                # the user pre-seeds the cache with a symbolic link: <cache file name of key i> -> their own copy
                # of the object (complete, current bytes) kept next to it.  The link is a cache file, the copy is
                # the user's: removing/evicting the entry must remove the link, never the copy.
                i = int(op["name"].split(":@k")[1]) % len(self.keys)
                # ... BETWEEN TWO PROCESSES: planting a cache-shaped file under a running cache is the user breaking
                # the cache, not the cache breaking C18.  The operation only takes effect when the next thing that
                # happens is a (re)open - whatever a generator profile inserted or the minimiser removed in between
                # (a thorough soak reported 18d for GET; plant; GET(52 uris); REOPEN - DESIGN 15.5 item 28)
                ops_ = self.record.get("ops", [])
                pos_ = [j for j, o in enumerate(ops_) if o is op or o.get("id") == op.get("id")]
                nxt_ = ops_[pos_[0] + 1] if pos_ and pos_[0] + 1 < len(ops_) else None
                if self.cache is not None and (nxt_ is None or nxt_.get("op") != "REOPEN"):
                    self.stats["probes"]["preseed_skipped_cache_running"] = self.stats["probes"].get("preseed_skipped_cache_running", 0) + 1
                    return
                # the user names the entry the way the cache names it: as an earlier request returned it, or - when
                # the cache demonstrably follows the documented naming - by that rule.  Under a naming the run has
                # not seen yet nothing can be pre-seeded.
                seen = self.oracle.path_seen if self.oracle is not None else {}
                link = seen.get(i)
                if link is None and any(seen.get(j) == self.path_of_key[j] for j in seen):
                    link = self.path_of_key[i]
                if link is None:
                    return
                target = self.cache_dir + "/my_copy_of_k%d.bin" % i
                obs.foreign_path = target
                obs.foreign_bytes_only = True  # using the entry refreshes the recency of the file the link names
                if (not self.fs.h_exists(link) and not os.path.islink(link) and not self.fs.h_exists(target)
                        and self.store.current(self.keys[i]["res"]) is not None and self.keys[i]["scheme"] != "nosuch"):
                    with open(target, "wb") as f:
                        f.write(self.expected_bytes(i))
                    os.symlink(posixpath.basename(target), link)
                    self.stats["probes"]["cache_entry_preseeded_as_symlink"] = self.stats["probes"].get("cache_entry_preseeded_as_symlink", 0) + 1
                return
            if op["name"].startswith("link:"):
                # a user's own symbolic link in the cache directory ("latest" -> a cache file, or dangling)
                _x, lname, tgt = op["name"].split(":", 2)
                p = self.cache_dir + "/" + lname
                obs.foreign_path = p
                if not self.fs.h_exists(p) and not os.path.islink(p):
                    os.symlink(self.resolve_foreign(tgt), p)
                return
            p = self.cache_dir + "/" + name
            obs.foreign_path = p
            if "/" in name:
                os.makedirs(posixpath.dirname(p), exist_ok=True)
            if not self.fs.h_exists(p):
                with open(p, "wb") as f:
                    f.write(b"F" * op.get("size", 10))
                t = self.clock.now + op.get("age", 0)
                os.utime(p, ns=(t, t))
        elif kind == "CHDIR":
            # the user's program changes its working directory (only generated for the module-level API, which
            # promises absolute cache paths)
            if self.cwd and self.knobs.get("api") == "module":
                new = "/SIMFS/" + op["to"]
                self.fs.h_mkdirs(new)
                self.cwd = new
                interpose._STATE["cwd"] = new
                # from now on the user has to name the same directory absolutely when (re)creating the cache
                self.cache_arg = self.cache_dir
        elif kind == "EDIT_CONFIG":
            # the documented way to change the size of an existing cache: edit file_cache_config.json
            import json as _json
            p = self.cache_dir + "/file_cache_config.json"
            obs.result = None
            if self.fs.h_exists(p):
                try:
                    with open(p, "rt") as f:
                        cfg = _json.load(f)
                except ValueError:
                    cfg = None
                if isinstance(cfg, dict) and "size_gb" in cfg:
                    cfg["size_gb"] = op["size"] / 1e9
                    with open(p, "wt") as f:
                        f.write(_json.dumps(cfg, indent=4))
                    obs.result = op["size"]
        elif kind == "SETCFG":
            # the caller changes a setting of the running cache through the public properties of its
            # configuration object (each setter also persists the configuration)
            obs.result = None
            if self.cache is not None:
                cfg = self.cache.config
                if op["attr"] == "allow":
                    cfg.allow_for_missing_files = bool(op["value"])
                    obs.result = ("allow", bool(op["value"]))
                elif op["attr"] == "parallel":
                    # 'the other download mode': the two executions of one C18 history stay opposite
                    new = not bool(cfg.parallel)
                    cfg.parallel = new
                    obs.result = ("parallel", new)
                elif op["attr"] == "grow":
                    # enlarging the limit (shrinking it under the contents mid-session is not part of the properties)
                    new = int(cfg.max_size_bytes) + int(op["by"])
                    if op.get("via") == "gb":
                        cfg.max_size = new / 1e9
                    else:
                        cfg.max_size_bytes = new
                    obs.result = ("grow", new)
        elif kind == "SETDIR":
            # the caller manages directive functions on the running cache: swaps an implementation (remove + set,
            # same semantics under the same name, new function object), registers one more that no uri names, or
            # removes that one again.  None of this may change what any request returns.
            obs.result = None
            if self.cache is not None:
                module = self.knobs.get("api", "object") == "module"
                rm = (lambda d, n: self.fc.remove_directive_function(d, n, CACHE_NAME)) if module else \
                    self.cache.remove_directive_function
                st = (lambda d, n, f: self.fc.set_directive_function(d, n, f, CACHE_NAME)) if module else \
                    self.cache.set_directive_function
                d = op["directive"]
                have = sorted(self.cache.directives[d]) if isinstance(getattr(self.cache, "directives", None), dict) and \
                    d in self.cache.directives else None
                what = op["what"]
                if what == "swap":
                    names = [n for n in (have if have is not None else ["pp" if d == "postprocess" else "v"]) if n != "extra"]
                    if names:
                        n = names[op.get("pick", 0) % len(names)]
                        rm(d, n)
                        st(d, n, self._named(d, n))
                        obs.result = ("swap", d, n)
                elif what == "extra":
                    if have is None or "extra" not in have:
                        st(d, "extra", self._named(d, "extra"))
                        obs.result = ("extra", d)
                    else:
                        rm(d, "extra")
                        obs.result = ("extra-removed", d)
        elif kind == "SAMEDIR":
            # (module-level API) the caller tries to create a SECOND named cache on the directory the first one uses,
            # spelled the same way or differently ("dir/", "dir/.", "x/../dir").  Documented: refused with ValueError.
            # If it is accepted, two cache objects manage one directory; a request through the second one makes the
            # consequence visible (the first cache's entry count no longer matches the files on disk).
            obs.result = None
            if self.knobs.get("api", "object") == "module" and self.cache is not None and not self.knobs.get("cache_dir_link"):
                arg = self.cache_arg
                spells = [arg, arg + "/", arg + "/."]
                if "/" in arg.rstrip("/"):
                    spells.append(posixpath.dirname(arg) + "/x/../" + posixpath.basename(arg))
                spell = spells[op.get("spell", 0) % len(spells)]
                alias = "verif-alias"
                try:
                    self.fc.create_cache(alias, spell, cache_size_GB=1000.0, resources=self._resources())
                except ValueError:
                    obs.result = ("refused", spell)
                else:
                    try:
                        reg = self.cache.in_cache([self.uris[i] for i in range(len(self.keys))])
                        free = [i for i, b in enumerate(reg) if not b and self.store.current(self.keys[i]["res"]) is not None
                                and self.keys[i]["scheme"] != "nosuch"]
                        if free:
                            self.current_req = [free[0]]
                            self._register_directives(lambda d, n, f: self.fc.set_directive_function(d, n, f, alias))
                            self.fc.filepaths([self.uris[free[0]]], alias)
                    finally:
                        self.fc._ACTIVE_FILE_CACHES.pop(alias, None)
                    obs.result = ("accepted", spell)
        elif kind == "RES_UPDATE":
            self.store.update(op["res"], op.get("size"))
            self.sync_remote_files()
        elif kind == "RES_DELETE":
            self.store.delete(op["res"])
            self.sync_remote_files()
        elif kind == "VALIDATOR":
            self.validator_policy = {"mode": op["mode"]}
        else:
            raise ValueError("unknown op %r" % kind)

    # ------------------------------------------------------------- results
    def digest(self):
        h = hashlib.sha256()
        if self.sched.log is not None:
            for ev in self.sched.log:
                h.update(repr(ev).encode())
        for p, kind, size, at, mt, data, _ino, _gen in self.fs.h_tree("/SIMFS"):
            h.update(("%s|%s|%d|%d|%d|" % (p, kind, size, at, mt)).encode("utf-8", "surrogateescape"))
            h.update(hashlib.md5(data).digest())
        h.update(repr(self.violation[:2] if self.violation else None).encode())
        return h.hexdigest()

"""The remote side: a versioned object store, the sim:// resource (a user-style RemoteResource
subclass), the requests shim for https:// and source files for file://.

Content is self-describing so that the oracle can tell from bytes alone which resource and version a
file holds, whether it is complete, and whether it went through the post-processor.
"""
import hashlib

SIM_REMOTE_DIR = "/SIMFS/remote"


def make_content(resource, version, size):
    """Exactly `size` bytes when size >= minimal header, else a short literal (size 0/1 supported)."""
    if size == 0:
        return b""
    head = ("SIM1|%s|v%d|%d|" % (resource, version, size)).encode()
    tail = b"|END"
    if size < len(head) + len(tail):
        # too small to be self-describing: deterministic filler that still depends on resource+version
        h = hashlib.sha256(("%s|%d" % (resource, version)).encode()).digest()
        return (h * (size // len(h) + 1))[:size]
    n = size - len(head) - len(tail)
    seed = hashlib.sha256(("%s#%d" % (resource, version)).encode()).digest()
    body = (seed * (n // len(seed) + 1))[:n]
    return head + body + tail


def postprocess_bytes(data):
    return b"PP(" + data[::-1] + b")"


class Store:
    """resource name -> list of versions (bytes or None for 'deleted'); the current one is the last."""

    def __init__(self):
        self.versions = {}
        self.sizes = {}

    def put(self, resource, size):
        self.sizes[resource] = size
        vs = self.versions.setdefault(resource, [])
        vs.append(make_content(resource, len(vs), size))

    def update(self, resource, size=None):
        if size is not None:
            self.sizes[resource] = size
        vs = self.versions[resource]
        vs.append(make_content(resource, len(vs), self.sizes[resource]))

    def delete(self, resource):
        self.versions[resource].append(None)

    def restore(self, resource):
        self.update(resource)

    def current(self, resource):
        vs = self.versions.get(resource)
        if not vs:
            return None
        return vs[-1]

    def current_version(self, resource):
        return len(self.versions[resource]) - 1

    def all_versions(self, resource):
        return [v for v in self.versions.get(resource, []) if v is not None]


class FetchLog:
    """Unified 'the resource was contacted' log: (op_id, scheme, resource, actor, step)."""

    def __init__(self):
        self.entries = []
        self.op = None

    def add(self, scheme, resource, actor, step):
        self.entries.append((self.op, scheme, resource, actor, step))

    def in_op(self, op):
        return [e for e in self.entries if e[0] == op]


class InjectedError(IOError):
    """Fault injected by the simulator (a remote I/O error)."""


def build_sim_resource(world, prefix="sim://", chained=False, private=False):
    """Returns an instance of a RemoteResource subclass written the way a user would write one."""
    from ocean_science_utilities.filecache.remote_resources import RemoteResource, _RemoteResourceUriNotFound

    class SimResource(RemoteResource):
        URI_PREFIX = prefix

        def valid_uri(self, uri):
            if private:
                return uri.startswith("sim://private/")  # same scheme as the public store, stricter claim
            return uri.startswith(self.URI_PREFIX)

        def download(self):
            def _download(uri, filepath):
                if private and not uri.startswith("sim://private/"):
                    raise _RemoteResourceUriNotFound("the private store has no object %s" % uri)
                if chained:
                    return world.chain_download(uri, filepath, _RemoteResourceUriNotFound)
                return world.sim_download(uri, filepath, _RemoteResourceUriNotFound)

            return _download

    return SimResource()


class FakeResponse:
    """What the simulated HTTP server answers: enough of requests.Response for plain and streamed downloads."""

    def __init__(self, url, status_code, content, world=None, drop_after=None, headers=None):
        self.url = url
        self.status_code = status_code
        self._content = content
        self._world = world
        self._drop_after = drop_after  # number of pieces delivered before the connection breaks
        self.headers = dict(headers or {})
        self.headers.setdefault("Content-Length", str(len(content)))
        self.reason = {200: "OK", 206: "Partial Content", 404: "Not Found", 500: "Internal Server Error",
                       503: "Service Unavailable"}.get(status_code, "")
        self.encoding = None

    @property
    def content(self):
        if self._drop_after is not None:
            import requests as _rq
            raise _rq.exceptions.ChunkedEncodingError("injected: connection broken while reading the body")
        return self._content

    @property
    def text(self):
        return self._content.decode("latin-1")

    @property
    def ok(self):
        return self.status_code < 400

    def iter_content(self, chunk_size=1, decode_unicode=False):
        import requests as _rq
        w = self._world
        piece = max(1, min(chunk_size or 1, (w.chunk if w is not None else 4096)))
        data = self._content
        n = 0
        for i in range(0, len(data), piece):
            if self._drop_after is not None and n >= self._drop_after:
                raise _rq.exceptions.ChunkedEncodingError("injected: connection broken while reading the body")
            if w is not None:
                w.sched("net.chunk", self.url, len(data[i:i + piece]))
            yield data[i:i + piece]
            n += 1
        if self._drop_after is not None and n <= self._drop_after:
            raise _rq.exceptions.ChunkedEncodingError("injected: connection broken while reading the body")

    def raise_for_status(self):
        import requests as _rq
        if 400 <= self.status_code < 500:
            raise _rq.exceptions.HTTPError("%d Client Error: %s for url: %s" % (self.status_code, self.reason, self.url),
                                           response=self)
        if 500 <= self.status_code < 600:
            raise _rq.exceptions.HTTPError("%d Server Error: %s for url: %s" % (self.status_code, self.reason, self.url),
                                           response=self)

    def close(self):
        pass

    def __enter__(self):
        return self

    def __exit__(self, *a):
        return False


class _Api:
    def __init__(self, world):
        self._world = world

    def get(self, url, **kwargs):
        return self._world.http_get(url, **kwargs)


class RequestsShim:
    """`requests` as seen by remote_resources: .api.get / .get are simulated, every other attribute is
    the real module's (so requests.exceptions is real and the `execptions` typo fails as in production)."""

    def __init__(self, world):
        import requests as _rq
        self._rq = _rq
        self.api = _Api(world)
        self.get = self.api.get

    def __getattr__(self, name):
        return getattr(self._rq, name)

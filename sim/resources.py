"""The remote side: a versioned object store, the sim:// resource (a user-style RemoteResource
subclass), the requests shim for https:// and source files for file://.

Content is self-describing so that the oracle can tell from bytes alone which resource and version a
file holds, whether it is complete, and whether it went through the post-processor.
"""
import hashlib

SIM_REMOTE_DIR = "/SIMFS/remote"


def make_content(resource, version, size):
    """Exactly `size` bytes when size >= minimal header, else a short literal (size 0/1 supported)."""
    if size == 0:
        return b""
    head = ("SIM1|%s|v%d|%d|" % (resource, version, size)).encode("utf-8", "surrogateescape")
    tail = b"|END"
    if size < len(head) + len(tail):
        # too small to be self-describing: deterministic filler that still depends on resource+version
        h = hashlib.sha256(("%s|%d" % (resource, version)).encode("utf-8", "surrogateescape")).digest()
        return (h * (size // len(h) + 1))[:size]
    n = size - len(head) - len(tail)
    seed = hashlib.sha256(("%s#%d" % (resource, version)).encode("utf-8", "surrogateescape")).digest()
    body = (seed * (n // len(seed) + 1))[:n]
    if resource.startswith("sparse") and n >= 16384:
        # a gridded field that is mostly fill value: the middle three quarters of the object are zero bytes
        body = body[:n // 8] + b"\0" * (n - 2 * (n // 8)) + body[n - n // 8:]
    return head + body + tail


# the second post-processor / validator a run may register: "pp" / "v" are PREFIXES of these names and the rest holds
# characters outside [A-Za-z0-9_] - legal in a directive option (anything but ';', '=', ':' is), cut off by a parser
# that tokenises with \w+ (seeded change s194)
PP2_NAME = "pp-v2.1"
V2_NAME = "v.strict-2"


def postprocess_bytes(data, name="pp"):
    """what the post-processor registered under `name` makes of a download: "pp" and "pp2" are two different
    user functions (same output length), so that a cache which runs the wrong one of several registered
    functions produces wrong content"""
    return (b"Q2(" if name == PP2_NAME else b"PP(") + data[::-1] + b")"


def unpostprocess(data):
    """(raw bytes, name of the post-processor) for post-processed content, (data, None) otherwise"""
    if data.endswith(b")") and data[:3] in (b"PP(", b"Q2("):
        return data[3:-1][::-1], (PP2_NAME if data[:3] == b"Q2(" else "pp")
    return data, None


class Store:
    """resource name -> list of versions (bytes or None for 'deleted'); the current one is the last."""

    def __init__(self):
        self.versions = {}
        self.sizes = {}

    def put(self, resource, size):
        self.sizes[resource] = size
        vs = self.versions.setdefault(resource, [])
        vs.append(make_content(resource, len(vs), size))

    def update(self, resource, size=None):
        if size is not None:
            self.sizes[resource] = size
        vs = self.versions[resource]
        vs.append(make_content(resource, len(vs), self.sizes[resource]))

    def delete(self, resource):
        self.versions[resource].append(None)

    def restore(self, resource):
        self.update(resource)

    def current(self, resource):
        vs = self.versions.get(resource)
        if not vs:
            return None
        return vs[-1]

    def current_version(self, resource):
        return len(self.versions[resource]) - 1

    def all_versions(self, resource):
        return [v for v in self.versions.get(resource, []) if v is not None]


class FetchLog:
    """Unified 'the resource was contacted' log: (op_id, scheme, resource, actor, step)."""

    def __init__(self):
        self.entries = []
        self.op = None

    def add(self, scheme, resource, actor, step):
        self.entries.append((self.op, scheme, resource, actor, step))

    def in_op(self, op):
        return [e for e in self.entries if e[0] == op]


class InjectedError(IOError):
    """Fault injected by the simulator (a remote I/O error)."""


def build_sim_resource(world, prefix="sim://", chained=False, private=False):
    """Returns an instance of a RemoteResource subclass written the way a user would write one."""
    from ocean_science_utilities.filecache.remote_resources import RemoteResource, _RemoteResourceUriNotFound

    class SimResource(RemoteResource):
        URI_PREFIX = prefix

        def valid_uri(self, uri):
            if private:
                return uri.startswith("sim://private/")  # same scheme as the public store, stricter claim
            return uri.startswith(self.URI_PREFIX)

        def download(self):
            def _download(uri, filepath):
                if private and not uri.startswith("sim://private/"):
                    raise _RemoteResourceUriNotFound("the private store has no object %s" % uri)
                if chained:
                    return world.chain_download(uri, filepath, _RemoteResourceUriNotFound)
                return world.sim_download(uri, filepath, _RemoteResourceUriNotFound)

            return _download

    return SimResource()


class FakeResponse:
    """What the simulated HTTP server answers: enough of requests.Response for plain and streamed downloads."""

    def __init__(self, url, status_code, content, world=None, drop_after=None, headers=None, gzip_encoded=False,
                 no_length=False):
        self.url = url
        self.status_code = status_code
        self._content = content
        self._world = world
        self._drop_after = drop_after  # number of pieces delivered before the connection breaks
        try:
            from requests.structures import CaseInsensitiveDict as _CID
        except Exception:  # pragma: no cover
            _CID = dict
        self.headers = _CID(headers or {})  # header names are case-insensitive, as in requests
        # what travels on the wire: the body itself, or (a server that compresses on the fly) its gzip form;
        # .content / .iter_content decode it as requests does, .raw hands out the wire bytes undecoded
        wire = content
        if gzip_encoded:
            import gzip as _gz
            wire = _gz.compress(content, 6, mtime=0)
            self.headers.setdefault("Content-Encoding", "gzip")
        if no_length:
            # a server that streams (Transfer-Encoding: chunked) announces no length
            self.headers.setdefault("Transfer-Encoding", "chunked")
        else:
            self.headers.setdefault("Content-Length", str(len(wire)))
        lm = (world.knobs.get("http_last_modified") if world is not None and hasattr(world, "knobs") else None)
        if lm and status_code in (200, 206):
            # what servers send with every object: when it last changed on the server - years ago, or (a server whose
            # clock is ahead) in the future.  It says nothing about when the CACHE last used its copy (seeded change s201)
            self.headers.setdefault("Last-Modified", {"past": "Tue, 15 Jun 2010 08:12:31 GMT",
                                                      "future": "Fri, 01 Jan 2038 00:00:00 GMT"}[lm])
            self.headers.setdefault("ETag", '"%08x"' % (len(content) * 2654435761 % 2**32))
            self.headers.setdefault("Date", "Thu, 01 Jun 2023 00:00:00 GMT")
        self.raw = _RawBody(self, wire)
        self.reason = {200: "OK", 206: "Partial Content", 404: "Not Found", 500: "Internal Server Error",
                       503: "Service Unavailable", 410: "Gone", 403: "Forbidden", 401: "Unauthorized",
                       429: "Too Many Requests", 502: "Bad Gateway", 504: "Gateway Timeout"}.get(status_code, "")
        self.encoding = None

    @property
    def content(self):
        if self._drop_after is not None:
            import requests as _rq
            raise _rq.exceptions.ChunkedEncodingError("injected: connection broken while reading the body")
        return self._content

    @property
    def text(self):
        return self._content.decode("latin-1")

    @property
    def ok(self):
        return self.status_code < 400

    def iter_content(self, chunk_size=1, decode_unicode=False):
        import requests as _rq
        w = self._world
        data = self._content
        # a body arrives in at most ~24 network pieces (as in sim_download): a reader asking for large blocks
        # while the run's chunk knob is tiny must not eat the run's step budget
        net = max((w.chunk if w is not None else 4096), len(data) // 24 + 1)
        piece = max(1, min(chunk_size or 1, net))
        n = 0
        for i in range(0, len(data), piece):
            if self._drop_after is not None and n >= self._drop_after:
                raise _rq.exceptions.ChunkedEncodingError("injected: connection broken while reading the body")
            if w is not None:
                w.sched("net.chunk", self.url, len(data[i:i + piece]))
            yield data[i:i + piece]
            n += 1
        if self._drop_after is not None and n <= self._drop_after:
            raise _rq.exceptions.ChunkedEncodingError("injected: connection broken while reading the body")

    def raise_for_status(self):
        import requests as _rq
        if 400 <= self.status_code < 500:
            raise _rq.exceptions.HTTPError("%d Client Error: %s for url: %s" % (self.status_code, self.reason, self.url),
                                           response=self)
        if 500 <= self.status_code < 600:
            raise _rq.exceptions.HTTPError("%d Server Error: %s for url: %s" % (self.status_code, self.reason, self.url),
                                           response=self)

    def close(self):
        pass

    def __enter__(self):
        return self

    def __exit__(self, *a):
        return False


class _RawBody:
    """response.raw: the undecoded wire bytes, file-like (read / stream / readinto-free), as urllib3's is."""

    def __init__(self, resp, wire):
        self._resp = resp
        self._wire = wire
        self._pos = 0
        self._n = 0
        self.decode_content = False
        self.closed = False
        self._dec = None

    def _piece(self, amt):
        import urllib3
        r = self._resp
        w = r._world
        if r._drop_after is not None and (self._n >= r._drop_after or self._pos >= len(self._wire)):
            raise urllib3.exceptions.ProtocolError("injected: connection broken while reading the body")
        # (at most ~16 pieces per body: a reader with a tiny buffer must not eat the run's step budget)
        cap = max(w.chunk if w is not None else 4096, len(self._wire) // 16 + 1)
        n = len(self._wire) - self._pos if amt is None or amt < 0 else min(amt, cap)
        data = self._wire[self._pos:self._pos + n]
        if w is not None and data:
            w.sched("net.chunk", r.url, len(data))
        self._pos += len(data)
        self._n += 1
        return data

    def read(self, amt=None, decode_content=None):
        decode = (decode_content or (decode_content is None and self.decode_content)) and \
            self._resp.headers.get("Content-Encoding") == "gzip"
        if not decode:
            return self._piece(amt)
        # incremental decoding as urllib3 does it: never an empty answer before the end of the body
        import zlib
        if self._dec is None:
            self._dec = zlib.decompressobj(16 + zlib.MAX_WBITS)
        while True:
            data = self._piece(amt)
            if not data:
                return self._dec.flush()
            out = self._dec.decompress(data)
            if out:
                return out

    def stream(self, amt=65536, decode_content=None):
        while self._pos < len(self._wire):
            yield self.read(amt, decode_content)

    def close(self):
        self.closed = True

    def release_conn(self):
        pass


class _Api:
    def __init__(self, world):
        self._world = world

    def get(self, url, **kwargs):
        return self._world.http_get(url, **kwargs)

    def head(self, url, **kwargs):
        # the answer to a GET without its body (no fault is consumed, nothing is logged as a fetch)
        return self._world.http_head(url, **kwargs)

    def request(self, method, url, **kwargs):
        m = str(method).upper()
        if m == "GET":
            return self.get(url, **kwargs)
        if m == "HEAD":
            return self.head(url, **kwargs)
        raise NotImplementedError("the simulated http server only answers GET and HEAD, not %s" % method)


class _Session:
    """requests.Session as far as a downloader needs it: get/head/request go to the simulated server; adapters,
    default headers and the context-manager protocol are accepted."""

    def __init__(self, api):
        self._api = api
        self.headers = {}
        self.adapters = {}
        self.verify = True
        self.auth = None
        self.params = {}
        self.max_redirects = 30

    def _kw(self, kwargs):
        if self.headers:
            kwargs = dict(kwargs, headers=dict(self.headers, **(kwargs.get("headers") or {})))
        return kwargs

    def get(self, url, **kwargs):
        return self._api.get(url, **self._kw(kwargs))

    def head(self, url, **kwargs):
        return self._api.head(url, **self._kw(kwargs))

    def request(self, method, url, **kwargs):
        return self._api.request(method, url, **self._kw(kwargs))

    def mount(self, prefix, adapter):
        self.adapters[prefix] = adapter

    def close(self):
        pass

    def __enter__(self):
        return self

    def __exit__(self, *a):
        return False


class RequestsShim:
    """`requests` as seen by remote_resources: .api.get / .get are simulated, every other attribute is
    the real module's (so requests.exceptions is real and the `execptions` typo fails as in production)."""

    def __init__(self, world):
        import requests as _rq
        self._rq = _rq
        self.api = _Api(world)
        self.get = self.api.get
        self.head = self.api.head
        self.request = self.api.request
        api = self.api
        self.Session = lambda: _Session(api)
        self.session = self.Session

    def __getattr__(self, name):
        return getattr(self._rq, name)

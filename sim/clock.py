"""Simulated clock.  All times are integer nanoseconds since the Unix epoch."""

EPOCH0 = 1_700_000_000 * 10**9  # 2023-11-14


class SimClock:
    """now: the true simulated instant; stamp(): what the file system records
    (quantised to the file system's timestamp granularity)."""

    def __init__(self, policy="fine", gran_ns=1, start_ns=EPOCH0):
        self.policy = policy  # fine | coarse | frozen | jumpy
        self.gran = max(1, int(gran_ns))
        self.now = int(start_ns)
        self.start = int(start_ns)
        self.mono = 0
        self.backward_steps = 0
        self.max_seen = self.now
        self.covered = 0  # sum of |advances|: simulated time covered

    def stamp(self):
        return (self.now // self.gran) * self.gran

    def time(self):
        return self.now / 1e9

    def advance(self, delta_ns):
        delta_ns = int(delta_ns)
        self.now += delta_ns
        self.covered += abs(delta_ns)
        if delta_ns < 0:
            self.backward_steps += 1
        else:
            self.mono += delta_ns
        if self.now > self.max_seen:
            self.max_seen = self.now

    def tick(self, rng):
        """Advance for one yield point according to the policy."""
        p = self.policy
        if p == "frozen":
            return
        if p == "coarse":
            # small steps relative to the granularity: many equal stamps, but time does move
            self.advance(rng.randrange(1, max(2, self.gran // 16)))
        else:
            self.advance(rng.randrange(1_000, 1_000_000))

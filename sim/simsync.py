"""Synchronisation primitives for the code under test: threading.Lock / RLock / Event / Condition /
Semaphore / queue.Queue stand-ins whose blocking operations are scheduler waits.

A real primitive would park the calling OS thread while it holds the baton and the whole simulation would
stall (a wall-clock time-out, not a verdict).  These stand-ins keep their state in plain Python (exactly one
actor runs at a time, so no atomicity is needed), make every operation a yield point, turn blocking into
``sched.wait(pred)`` - so that a wait that can never end is reported as a deadlock of the code under test -
and measure time-outs on the simulated clock (when nobody can run, time jumps to the earliest deadline).

They are handed only to the modules under test: `threading` / `queue` as seen from those modules is a proxy
(everything else is the real module's), names imported with ``from threading import Lock`` are rebound, and
primitives the modules created at import time (module-level locks) are swapped for the duration of a run.
"""
import _thread
import collections
import copy
import queue as _real_queue
import threading as _real_threading
import types

from . import simpool

_REAL_LOCK_TYPE = type(_thread.allocate_lock())
_REAL_RLOCK_TYPE = type(_real_threading.RLock())


def _managed():
    s = simpool._CTX["sched"]
    if s is None or s.current is None:
        return None
    return s


def _me(s):
    return s.current.name if s is not None else "<outside>"


def _wait(s, cond, timeout, kind):
    """Block the calling actor until cond() holds or (simulated) `timeout` seconds have passed."""
    if timeout is None or timeout < 0:
        s.wait(cond, kind)
        return True
    clock = s.clock
    deadline = clock.mono + int(timeout * 1e9)
    s.wait(lambda: cond() or clock.mono >= deadline, kind, deadline=deadline)
    return bool(cond())


class SimLock:
    def __init__(self):
        self._owner = None

    def acquire(self, blocking=True, timeout=-1):
        s = _managed()
        if s is None:
            if self._owner is not None:
                raise RuntimeError("simulated lock contended outside a simulation")
            self._owner = "<outside>"
            return True
        s("lock.acquire")
        while self._owner is not None:
            if not blocking:
                return False
            if not _wait(s, lambda: self._owner is None, None if timeout is None or timeout < 0 else timeout, "lock.wait"):
                return False
        self._owner = _me(s)
        return True

    def release(self):
        if self._owner is None:
            raise RuntimeError("release unlocked lock")
        self._owner = None

    def locked(self):
        return self._owner is not None

    __enter__ = acquire

    def __exit__(self, *a):
        self.release()

    def _at_fork_reinit(self):
        self._owner = None


class SimRLock:
    def __init__(self):
        self._owner = None
        self._count = 0

    def acquire(self, blocking=True, timeout=-1):
        s = _managed()
        me = _me(s)
        if s is None:
            if self._owner not in (None, me):
                raise RuntimeError("simulated lock contended outside a simulation")
            self._owner = me
            self._count += 1
            return True
        s("lock.acquire")
        while self._owner is not None and self._owner != me:
            if not blocking:
                return False
            if not _wait(s, lambda: self._owner is None, None if timeout is None or timeout < 0 else timeout, "lock.wait"):
                return False
        self._owner = me
        self._count += 1
        return True

    def release(self):
        if self._count == 0:
            raise RuntimeError("cannot release un-acquired lock")
        self._count -= 1
        if self._count == 0:
            self._owner = None

    __enter__ = acquire

    def __exit__(self, *a):
        self.release()

    def locked(self):
        return self._owner is not None

    # used by Condition
    def _release_save(self):
        st = (self._owner, self._count)
        self._owner, self._count = None, 0
        return st

    def _acquire_restore(self, st):
        s = _managed()
        if s is not None:
            while self._owner is not None:
                s.wait(lambda: self._owner is None, "lock.wait")
        self._owner, self._count = st

    def _is_owned(self):
        return self._owner == _me(_managed())


class SimEvent:
    def __init__(self):
        self._flag = False

    def is_set(self):
        return self._flag

    isSet = is_set

    def set(self):
        s = _managed()
        if s is not None:
            s("event.set")
        self._flag = True

    def clear(self):
        self._flag = False

    def wait(self, timeout=None):
        s = _managed()
        if s is None:
            if not self._flag and timeout is None:
                raise RuntimeError("simulated event awaited outside a simulation")
            return self._flag
        if self._flag:
            s("event.wait")
            return True
        return _wait(s, lambda: self._flag, timeout, "event.wait")


class SimSemaphore:
    def __init__(self, value=1):
        if value < 0:
            raise ValueError("semaphore initial value must be >= 0")
        self._value = value
        self._initial = value

    def acquire(self, blocking=True, timeout=None):
        s = _managed()
        if s is None:
            if self._value == 0:
                raise RuntimeError("simulated semaphore contended outside a simulation")
            self._value -= 1
            return True
        s("sem.acquire")
        while self._value == 0:
            if not blocking:
                return False
            if not _wait(s, lambda: self._value > 0, timeout, "sem.wait"):
                return False
        self._value -= 1
        return True

    __enter__ = acquire

    def release(self, n=1):
        self._value += n

    def __exit__(self, *a):
        self.release()


class SimBoundedSemaphore(SimSemaphore):
    def release(self, n=1):
        if self._value + n > self._initial:
            raise ValueError("Semaphore released too many times")
        self._value += n


class SimCondition:
    def __init__(self, lock=None):
        self._lock = lock if lock is not None else SimRLock()
        self._waiters = []
        self.acquire = self._lock.acquire
        self.release = self._lock.release

    def __enter__(self):
        return self._lock.__enter__()

    def __exit__(self, *a):
        return self._lock.__exit__(*a)

    def wait(self, timeout=None):
        s = _managed()
        if s is None:
            raise RuntimeError("simulated condition awaited outside a simulation")
        token = [False]
        self._waiters.append(token)
        if hasattr(self._lock, "_release_save"):
            st = self._lock._release_save()
        else:
            self._lock.release()
            st = None
        try:
            got = _wait(s, lambda: token[0], timeout, "cond.wait")
        finally:
            if token in self._waiters:
                self._waiters.remove(token)
            if st is not None:
                self._lock._acquire_restore(st)
            else:
                self._lock.acquire()
        return got

    def wait_for(self, predicate, timeout=None):
        s = _managed()
        end = None if timeout is None else s.clock.mono + int(timeout * 1e9)
        result = predicate()
        while not result:
            left = None
            if end is not None:
                left = (end - s.clock.mono) / 1e9
                if left <= 0:
                    break
            self.wait(left)
            result = predicate()
        return result

    def notify(self, n=1):
        for token in self._waiters[:n]:
            token[0] = True
        del self._waiters[:n]

    def notify_all(self):
        self.notify(len(self._waiters))

    notifyAll = notify_all


class SimQueue:
    """queue.Queue (FIFO) stand-in."""

    def __init__(self, maxsize=0):
        self.maxsize = maxsize
        self._q = collections.deque()
        self.unfinished_tasks = 0

    def _put(self, item):
        self._q.append(item)

    def _get(self):
        return self._q.popleft()

    def qsize(self):
        return len(self._q)

    def empty(self):
        return not self._q

    def full(self):
        return 0 < self.maxsize <= len(self._q)

    def put(self, item, block=True, timeout=None):
        s = _managed()
        if s is not None:
            s("queue.put")
        while self.full():
            if s is None or not block:
                raise _real_queue.Full
            if not _wait(s, lambda: not self.full(), timeout, "queue.wait"):
                raise _real_queue.Full
        self._put(item)
        self.unfinished_tasks += 1

    def get(self, block=True, timeout=None):
        s = _managed()
        if s is not None:
            s("queue.get")
        while not self._q:
            if s is None or not block:
                raise _real_queue.Empty
            if not _wait(s, lambda: bool(self._q), timeout, "queue.wait"):
                raise _real_queue.Empty
        return self._get()

    def put_nowait(self, item):
        return self.put(item, block=False)

    def get_nowait(self):
        return self.get(block=False)

    def task_done(self):
        if self.unfinished_tasks <= 0:
            raise ValueError("task_done() called too many times")
        self.unfinished_tasks -= 1

    def join(self):
        s = _managed()
        if s is None:
            if self.unfinished_tasks:
                raise RuntimeError("simulated queue joined outside a simulation")
            return
        s.wait(lambda: self.unfinished_tasks == 0, "queue.join")


class SimLifoQueue(SimQueue):
    def _get(self):
        return self._q.pop()


class SimSimpleQueue(SimQueue):
    def __init__(self):
        SimQueue.__init__(self, 0)


class _Proxy(types.ModuleType):
    """A module as seen from the code under test: some names replaced, the rest the real module's."""

    def __init__(self, real, overrides):
        types.ModuleType.__init__(self, real.__name__)
        self.__dict__["_real"] = real
        self.__dict__.update(overrides)

    def __getattr__(self, name):
        return getattr(self.__dict__["_real"], name)


def threading_overrides():
    return {"Lock": SimLock, "RLock": SimRLock, "Event": SimEvent, "Condition": SimCondition,
            "Semaphore": SimSemaphore, "BoundedSemaphore": SimBoundedSemaphore, "Thread": simpool.SimThread}


def queue_overrides():
    return {"Queue": SimQueue, "LifoQueue": SimLifoQueue, "SimpleQueue": SimSimpleQueue}


_REAL_FACTORIES = None


def _real_factories():
    global _REAL_FACTORIES
    if _REAL_FACTORIES is None:
        t, q = _real_threading, _real_queue
        _REAL_FACTORIES = [
            (t.Lock, SimLock), (_thread.allocate_lock, SimLock), (t.RLock, SimRLock), (t.Event, SimEvent),
            (t.Condition, SimCondition), (t.Semaphore, SimSemaphore), (t.BoundedSemaphore, SimBoundedSemaphore),
            (q.Queue, SimQueue), (q.LifoQueue, SimLifoQueue), (q.SimpleQueue, SimSimpleQueue),
        ]
    return _REAL_FACTORIES


def _instance_replacement(val):
    t = _real_threading
    if isinstance(val, _REAL_LOCK_TYPE):
        return SimLock()
    if isinstance(val, _REAL_RLOCK_TYPE):
        return SimRLock()
    if isinstance(val, t.Event):
        return SimEvent()
    if isinstance(val, t.BoundedSemaphore):
        return SimBoundedSemaphore(val._initial_value)
    if isinstance(val, t.Semaphore):
        return SimSemaphore(val._value)
    if isinstance(val, t.Condition):
        return SimCondition()
    if isinstance(val, _real_queue.LifoQueue):
        return SimLifoQueue(val.maxsize)
    if isinstance(val, _real_queue.Queue):
        return SimQueue(val.maxsize)
    if isinstance(val, _real_queue.SimpleQueue):
        return SimSimpleQueue()
    return None


_PRISTINE = {}  # (module name, global name) -> deep copy of the container as it was right after import
_INSTANCES = {}  # (module name, global name) -> the real primitive found there at import time


def patch_sync_in(module, real_thread_class):
    """Returns [(name, saved value)] to restore."""
    saved = []
    g = module.__dict__
    for name, val in list(g.items()):
        if name.startswith("__"):
            continue
        new = None
        if val is _real_threading:
            new = _Proxy(_real_threading, threading_overrides())
        elif val is _real_queue:
            new = _Proxy(_real_queue, queue_overrides())
        elif val is real_thread_class:
            new = simpool.SimThread
        else:
            for real, sim in _real_factories():
                if val is real:
                    new = sim
                    break
            if new is None and not isinstance(val, (type, types.ModuleType, types.FunctionType)):
                new = _instance_replacement(val)
                if new is not None:
                    _INSTANCES[(module.__name__, name)] = val
        if new is not None:
            saved.append((name, val))
            g[name] = new
    reset_module_state(module)
    return saved


def reset_module_state(module):
    """A new (simulated) process: the module's own mutable containers (module-level dicts/lists/sets such as
    registries) go back to their state right after import and module-level primitives are fresh.  State of the
    code under test must not leak from one simulated process - or one simulated run executed by the same
    worker process - into the next."""
    g = module.__dict__
    for (mname, name), real in _INSTANCES.items():
        if mname == module.__name__ and name in g:
            g[name] = _instance_replacement(real)
    for name, val in list(g.items()):
        if name.startswith("__"):
            continue
        if type(val) in (dict, list, set, collections.OrderedDict, collections.defaultdict, collections.deque):
            key = (module.__name__, name)
            if key not in _PRISTINE:
                try:
                    _PRISTINE[key] = copy.deepcopy(val)
                except Exception:  # noqa: BLE001 - not copyable: left alone
                    _PRISTINE[key] = None
            pristine = _PRISTINE[key]
            try:
                if pristine is None or val == pristine:
                    continue
                fresh = copy.deepcopy(pristine)
                val.clear()
                if isinstance(val, (dict, set)):
                    val.update(fresh)
                else:
                    val.extend(fresh)
            except Exception:  # noqa: BLE001
                pass

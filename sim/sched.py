"""Baton-passing scheduler: actors are real threads, exactly one runs at a time.

The scheduler object is also SimFS' hook: every simulated primitive calls
``sched(kind, path, n, mut)`` before applying its effect.  That call is the
yield point: the event is logged, the director may inject a crash or a fault,
the clock advances, and the director picks who runs next.
"""
import _thread
import threading

_RealThread = threading.Thread  # threading.Thread itself is replaced by a managed stand-in during runs

RUNNABLE, BLOCKED, DONE = "R", "B", "D"


class SimCrash(BaseException):
    """The simulated process died.  BaseException so that `except Exception` in the code under test
    cannot swallow it."""


class HarnessAbort(BaseException):
    """The run cannot continue for a reason that is the simulator's, not the code's (step cap, deadlock)."""


class Actor:
    __slots__ = ("name", "idx", "lock", "state", "pred", "dead", "thread_id", "error", "is_client", "prio", "waitkind", "deadline")

    def __init__(self, name, idx, is_client=False):
        self.name = name
        self.idx = idx
        self.lock = _thread.allocate_lock()
        self.lock.acquire()  # parked
        self.state = RUNNABLE
        self.pred = None
        self.dead = False
        self.thread_id = None
        self.error = None
        self.is_client = is_client
        self.prio = 0
        self.waitkind = ""
        self.deadline = None

    def __repr__(self):
        return "<Actor %s %s>" % (self.name, self.state)


class Director:
    """Decisions of one run.  The default never injects anything and never pre-empts."""

    def on_event(self, sched, actor, kind, path, n, mut):
        return None

    def tick(self, sched, actor):
        pass

    def pick(self, sched, runnable, current):
        return current if current in runnable else runnable[0]


class Sched:
    def __init__(self, director=None, step_cap=200_000, log_events=True):
        self.director = director or Director()
        self.actors = []
        self.current = None
        self.client = None
        self.step = 0
        self.step_cap = step_cap
        self.log = [] if log_events else None
        self.crashed = False
        self.abort_reason = None
        self.switches = 0
        self.decisions = 0  # picks with >= 2 runnable actors
        self.interleave_sig = []  # (actor, kind) at those picks
        self._spawn_count = 0
        self.max_live = 1
        self.clock = None  # set by the world: waits with a time-out are measured on the simulated clock
        self.time_jumps = 0

    # ------------------------------------------------------------------ actors
    def attach_client(self, name="client"):
        a = Actor(name, 0, is_client=True)
        a.thread_id = threading.get_ident()
        self.actors.append(a)
        self.client = a
        self.current = a
        return a

    def detach_client(self):
        self.current = None

    def owner(self):
        return self.current.name if self.current is not None else None

    def spawn(self, name, fn):
        self._spawn_count += 1
        a = Actor(name, self._spawn_count)
        a.dead = self.crashed
        self.actors.append(a)
        t = _RealThread(target=self._thread_main, args=(a, fn), name="sim-" + name, daemon=True)
        t.start()
        live = sum(1 for x in self.actors if x.state != DONE)
        if live > self.max_live:
            self.max_live = live
        return a

    def _thread_main(self, actor, fn):
        actor.lock.acquire()
        actor.thread_id = threading.get_ident()
        try:
            if not actor.dead:
                fn()
        except SimCrash:
            pass
        except HarnessAbort:
            pass
        except BaseException as e:  # noqa: BLE001 - reported by the harness
            actor.error = e
        finally:
            actor.state = DONE
            self._exit_handoff(actor)

    def live_workers(self):
        return [a for a in self.actors if not a.is_client and a.state != DONE]

    # ------------------------------------------------------------- yield point
    def __call__(self, kind, path="", n=0, mut=False):
        a = self.current
        if a is None:
            return None
        if a.thread_id is not None and a.thread_id != _thread.get_ident():
            # a thread the scheduler does not manage reached the simulated world: its interleaving would be
            # decided by the host, so the run is not a simulation any more (harness outcome, never a verdict)
            self.abort_reason = self.abort_reason or "an unmanaged thread called into the simulated world"
            raise HarnessAbort(self.abort_reason)
        if a.dead or self.crashed:
            # the process is dead until the world starts the next incarnation (new_epoch): whatever the
            # unwinding code under test still tries to do (finally blocks, close() flushing) has no effect
            self._die(a)
        self.step += 1
        if self.step > self.step_cap:
            self._abort("step cap %d exceeded" % self.step_cap)
            self._die(a)
        if self.log is not None:
            self.log.append((self.step, a.name, kind, path, n))
        action = self.director.on_event(self, a, kind, path, n, mut)
        directive = None
        exc = None
        if action is not None:
            what = action[0]
            if what == "crash":
                torn = action[1]
                if kind == "write" and torn is not None:
                    return ("torn", torn)  # SimFS applies the prefix, then calls die()
                self.kill_all()
                self._die(a)
            elif what == "raise":
                exc = action[1]
            elif what == "short":
                directive = ("short", action[1])
        self.director.tick(self, a)
        self._reschedule(a)
        if a.dead:
            self._die(a)
        if exc is not None:
            raise exc
        return directive

    def wait(self, pred, kind="wait", deadline=None):
        """Block the calling actor until pred() holds.  Also a yield point.  `deadline` (simulated monotonic ns)
        tells the scheduler when pred() turns true by the passing of time alone."""
        a = self.current
        if a is None:
            if not pred():
                raise HarnessAbort("wait() outside the simulation would block forever")
            return
        if a.dead or self.crashed:
            self._die(a)
        self.step += 1
        if self.step > self.step_cap:
            self._abort("step cap %d exceeded" % self.step_cap)
            self._die(a)
        if self.log is not None:
            self.log.append((self.step, a.name, kind, "", 0))
        action = self.director.on_event(self, a, kind, "", 0, False)
        if action is not None and action[0] == "crash":
            self.kill_all()
            self._die(a)
        self.director.tick(self, a)
        if not pred():
            a.state = BLOCKED
            a.pred = pred
            a.waitkind = kind
            a.deadline = deadline
        self._reschedule(a)
        if a.dead:
            self._die(a)

    def die(self):
        """Called by SimFS after applying a torn write."""
        self.kill_all()
        self._die(self.current)

    # --------------------------------------------------------------- internals
    def _runnable(self):
        out = []
        for x in self.actors:
            if x.state == RUNNABLE:
                out.append(x)
            elif x.state == BLOCKED and x.pred():
                x.state = RUNNABLE
                x.pred = None
                x.deadline = None
                out.append(x)
        if not out and self.clock is not None:
            # nobody can run: discrete-event time - jump to the earliest deadline somebody is waiting for
            dl = [x.deadline for x in self.actors if x.state == BLOCKED and x.deadline is not None]
            if dl and min(dl) > self.clock.mono:
                self.clock.advance(min(dl) - self.clock.mono)
                self.time_jumps += 1
                return self._runnable()
        return out

    def _reschedule(self, a):
        runnable = self._runnable()
        if not runnable:
            self._abort("deadlock: no runnable actor (%s)" % ", ".join(
                "%s:%s" % (x.name, x.waitkind) for x in self.actors if x.state == BLOCKED))
            self._die(a)
        if len(runnable) == 1:
            nxt = runnable[0]
        else:
            self.decisions += 1
            nxt = self.director.pick(self, runnable, a)
            self.interleave_sig.append(nxt.name)
        if nxt is not a:
            self._switch(a, nxt)

    def _switch(self, a, nxt):
        self.switches += 1
        self.current = nxt
        nxt.lock.release()
        a.lock.acquire()

    def _exit_handoff(self, actor):
        """Called on the dying thread of a finished worker: pass the baton on."""
        if self.crashed or self.abort_reason:
            nxt = None
            for x in self.actors:
                if not x.is_client and x.state != DONE:
                    nxt = x
                    break
            if nxt is None:
                nxt = self.client
        else:
            runnable = self._runnable()
            if not runnable:
                self._abort("deadlock after %s exited" % actor.name)
                nxt = None
                for x in self.actors:
                    if not x.is_client and x.state != DONE:
                        nxt = x
                        break
                if nxt is None:
                    nxt = self.client
            elif len(runnable) == 1:
                nxt = runnable[0]
            else:
                self.decisions += 1
                nxt = self.director.pick(self, runnable, actor)
                self.interleave_sig.append(nxt.name)
        self.switches += 1
        self.current = nxt
        nxt.lock.release()

    def kill_all(self):
        self.crashed = True
        for x in self.actors:
            if x.state != DONE:
                x.dead = True

    def _abort(self, reason):
        if self.abort_reason is None:
            self.abort_reason = reason
        self.kill_all()

    def _die(self, a):
        """Raise out of the calling actor; the client first lets every worker die."""
        if a.is_client:
            while True:
                nxt = None
                for x in self.actors:
                    if not x.is_client and x.state != DONE:
                        nxt = x
                        break
                if nxt is None:
                    break
                self._switch(a, nxt)
            a.dead = False
            if self.abort_reason:
                raise HarnessAbort(self.abort_reason)
            raise SimCrash()
        raise SimCrash()

    def new_epoch(self):
        """After a crash: forget the dead incarnation's actors; the client lives on as the next process."""
        self.crashed = False
        self.actors = [self.client]
        self.client.dead = False
        self.client.state = RUNNABLE

    def drain(self):
        """Let every remaining worker (zombies) run until nothing more can happen: each one has finished or is parked for
        good - an idle worker of a pool the code keeps alive between requests, a thread waiting for a signal nobody will
        send.  (Waiting for every worker to END reported a cache that keeps its pool as "never returns": seeded change
        s214 was 'detected' that way, which is a harness artefact, not a violation - DESIGN 15.5 item 35.)"""
        def quiet():
            for x in self.actors:
                if x.is_client or x.state == DONE:
                    continue
                if x.state != BLOCKED or x.deadline is not None or x.pred():
                    return False
            return True
        if not quiet():
            self.wait(quiet, "drain")

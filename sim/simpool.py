"""SimPool: a stand-in for multiprocessing.pool.ThreadPool whose workers are scheduler actors.

Semantics follow CPython 3.12 multiprocessing/pool.py (checked by selftest/fidelity_pool.py):
  * imap/map cut the items into chunks; a chunk is one task `list(map(f, chunk))`;
  * tasks are picked up in FIFO order by whichever worker is idle;
  * an exception in one item fails its whole chunk; it is re-raised to the consumer when the
    consumer reaches that chunk (imap) or after all chunks finished (map);
  * terminate() (= __exit__) drops tasks that were not picked up yet; tasks in flight run to
    completion with their results discarded and nobody joins them ("zombies").
"""
import itertools
from collections import deque

_CTX = {"sched": None, "pools": 0, "registry": []}


def bind(sched):
    _CTX["sched"] = sched
    _CTX["pools"] = 0
    _CTX["registry"] = []


def unbind():
    _CTX["sched"] = None
    _CTX["registry"] = []


def busy_total():
    """Number of workers currently inside a task, over all pools of the live incarnation."""
    return sum(p._busy for p in _CTX["registry"])


def forget_pools():
    """The process died: its pools are gone."""
    _CTX["registry"] = []


RUN, CLOSE, TERMINATE = "RUN", "CLOSE", "TERMINATE"


class _Job:
    def __init__(self, nchunks):
        self.results = [None] * nchunks  # (ok, value)
        self.done = 0

    def ready(self, i):
        return self.results[i] is not None

    def all_ready(self):
        return self.done == len(self.results)


class _AsyncResult:
    def __init__(self, pool, job, unwrap):
        self._pool, self._job, self._unwrap = pool, job, unwrap

    def ready(self):
        return self._job.all_ready()

    def wait(self, timeout=None):
        self._pool._sched.wait(self._job.all_ready, "pool.wait")

    def successful(self):
        if not self.ready():
            raise ValueError("not ready")
        return all(ok for ok, _ in self._job.results)

    def get(self, timeout=None):
        self.wait()
        out = []
        for ok, val in self._job.results:
            if not ok:
                raise val
            out.extend(val)
        return self._unwrap(out)


class SimPool:
    def __init__(self, processes=None, initializer=None, initargs=(), maxtasksperchild=None, context=None):
        sched = _CTX["sched"]
        if sched is None:
            raise RuntimeError("SimPool used outside a simulation")
        if processes is None:
            processes = 4
        if processes < 1:
            raise ValueError("Number of processes must be at least 1")
        self._sched = sched
        self._processes = processes
        self._initializer, self._initargs = initializer, initargs
        self._tasks = deque()
        self._state = RUN
        self._workers = []
        self._busy = 0
        _CTX["pools"] += 1
        self._no = _CTX["pools"]
        _CTX["registry"].append(self)

    # ------------------------------------------------------------ worker side
    def _worker(self):
        sched = self._sched
        if self._initializer is not None:
            self._initializer(*self._initargs)
        while True:
            sched.wait(lambda: bool(self._tasks) or self._state != RUN, "pool.get")
            if not self._tasks:
                return
            job, idx, func, batch, star = self._tasks.popleft()
            self._busy += 1
            try:
                if star:
                    val = (True, list(itertools.starmap(func, batch)))
                else:
                    val = (True, list(map(func, batch)))
            except Exception as e:  # the real worker catches Exception only
                val = (False, e)
            self._busy -= 1
            sched("pool.done", "", idx)
            job.results[idx] = val
            job.done += 1

    def _submit(self, func, items, chunksize, star=False):
        if self._state != RUN:
            raise ValueError("Pool not running")
        items = list(items)
        if chunksize < 1:
            raise ValueError("Chunksize must be 1+, not %r" % (chunksize,))
        chunks = [items[i:i + chunksize] for i in range(0, len(items), chunksize)]
        job = _Job(len(chunks))
        for i, batch in enumerate(chunks):
            self._tasks.append((job, i, func, batch, star))
        # workers are created lazily: as many as could ever be busy at once (identity-free, so this is
        # indistinguishable from `processes` threads competing for the queue)
        alive = len([w for w in self._workers if w.state != "D"])
        need = min(self._processes, self._busy + len(self._tasks)) - alive
        for _ in range(max(0, need)):
            k = len(self._workers)
            self._workers.append(self._sched.spawn("p%dw%d" % (self._no, k), self._worker))
        return job

    # ---------------------------------------------------------------- the API
    def imap(self, func, iterable, chunksize=1):
        job = self._submit(func, iterable, chunksize)
        return self._imap_iter(job)

    def _imap_iter(self, job):
        for i in range(len(job.results)):
            self._sched.wait(lambda i=i: job.ready(i), "pool.next")
            ok, val = job.results[i]
            if not ok:
                raise val
            for item in val:
                yield item

    def imap_unordered(self, func, iterable, chunksize=1):
        job = self._submit(func, iterable, chunksize)
        return self._imap_unordered_iter(job)

    def _imap_unordered_iter(self, job):
        seen = set()
        n = len(job.results)
        while len(seen) < n:
            self._sched.wait(lambda: job.done > len(seen), "pool.next")
            # completion order is the order in which results were set; ties cannot happen (one actor runs)
            for i in range(n):
                if i not in seen and job.ready(i):
                    seen.add(i)
                    ok, val = job.results[i]
                    if not ok:
                        raise val
                    for item in val:
                        yield item
                    break

    def _default_chunksize(self, n):
        chunksize, extra = divmod(n, self._processes * 4)
        if extra:
            chunksize += 1
        return max(1, chunksize)

    def map_async(self, func, iterable, chunksize=None, callback=None, error_callback=None):
        items = list(iterable)
        if chunksize is None:
            chunksize = self._default_chunksize(len(items))
        return _AsyncResult(self, self._submit(func, items, chunksize), lambda out: out)

    def map(self, func, iterable, chunksize=None):
        return self.map_async(func, iterable, chunksize).get()

    def starmap(self, func, iterable, chunksize=None):
        items = list(iterable)
        if chunksize is None:
            chunksize = self._default_chunksize(len(items))
        return _AsyncResult(self, self._submit(func, items, chunksize, star=True), lambda out: out).get()

    def apply_async(self, func, args=(), kwds=None, callback=None, error_callback=None):
        kwds = kwds or {}
        job = self._submit(lambda _: func(*args, **kwds), [None], 1)
        return _AsyncResult(self, job, lambda out: out[0])

    def apply(self, func, args=(), kwds=None):
        return self.apply_async(func, args, kwds).get()

    def close(self):
        if self._state == RUN:
            self._state = CLOSE

    def terminate(self):
        self._state = TERMINATE
        self._tasks.clear()

    def join(self):
        if self._state == RUN:
            raise ValueError("Pool is still running")
        self._sched.wait(lambda: all(w.state == "D" for w in self._workers), "pool.join")

    def __enter__(self):
        if self._state != RUN:
            raise ValueError("Pool not running")
        return self

    def __exit__(self, *exc):
        self.terminate()
        return False

"""SimPool: a stand-in for multiprocessing.pool.ThreadPool whose workers are scheduler actors.

Semantics follow CPython 3.12 multiprocessing/pool.py (checked by selftest/fidelity_pool.py):
  * imap/map cut the items into chunks; a chunk is one task `list(map(f, chunk))`;
  * tasks are picked up in FIFO order by whichever worker is idle;
  * an exception in one item fails its whole chunk; it is re-raised to the consumer when the
    consumer reaches that chunk (imap) or after all chunks finished (map);
  * terminate() (= __exit__) drops tasks that were not picked up yet; tasks in flight run to
    completion with their results discarded and nobody joins them ("zombies").
"""
import itertools
from collections import deque

_CTX = {"sched": None, "pools": 0, "registry": []}


def bind(sched):
    _CTX["sched"] = sched
    _CTX["pools"] = 0
    _CTX["registry"] = []


def unbind():
    _CTX["sched"] = None
    _CTX["registry"] = []


def busy_total():
    """Number of workers currently inside a task, over all pools of the live incarnation."""
    return sum(p._busy for p in _CTX["registry"])


def forget_pools():
    """The process died: its pools are gone."""
    _CTX["registry"] = []


RUN, CLOSE, TERMINATE = "RUN", "CLOSE", "TERMINATE"


class _Job:
    def __init__(self, nchunks):
        self.results = [None] * nchunks  # (ok, value)
        self.done = 0

    def ready(self, i):
        return self.results[i] is not None

    def all_ready(self):
        return self.done == len(self.results)


class _AsyncResult:
    def __init__(self, pool, job, unwrap):
        self._pool, self._job, self._unwrap = pool, job, unwrap

    def ready(self):
        return self._job.all_ready()

    def wait(self, timeout=None):
        self._pool._sched.wait(self._job.all_ready, "pool.wait")

    def successful(self):
        if not self.ready():
            raise ValueError("not ready")
        return all(ok for ok, _ in self._job.results)

    def get(self, timeout=None):
        self.wait()
        out = []
        for ok, val in self._job.results:
            if not ok:
                raise val
            out.extend(val)
        return self._unwrap(out)


class SimPool:
    def __init__(self, processes=None, initializer=None, initargs=(), maxtasksperchild=None, context=None):
        sched = _CTX["sched"]
        if sched is None:
            raise RuntimeError("SimPool used outside a simulation")
        if processes is None:
            processes = 4
        if processes < 1:
            raise ValueError("Number of processes must be at least 1")
        self._sched = sched
        self._processes = processes
        self._initializer, self._initargs = initializer, initargs
        self._tasks = deque()
        self._state = RUN
        self._workers = []
        self._busy = 0
        _CTX["pools"] += 1
        self._no = _CTX["pools"]
        _CTX["registry"].append(self)

    # ------------------------------------------------------------ worker side
    def _worker(self):
        sched = self._sched
        if self._initializer is not None:
            self._initializer(*self._initargs)
        while True:
            sched.wait(lambda: bool(self._tasks) or self._state != RUN, "pool.get")
            if not self._tasks:
                return
            job, idx, func, batch, star = self._tasks.popleft()
            self._busy += 1
            try:
                if star:
                    val = (True, list(itertools.starmap(func, batch)))
                else:
                    val = (True, list(map(func, batch)))
            except Exception as e:  # the real worker catches Exception only
                val = (False, e)
            self._busy -= 1
            sched("pool.done", "", idx)
            job.results[idx] = val
            job.done += 1

    def _submit(self, func, items, chunksize, star=False):
        if self._state != RUN:
            raise ValueError("Pool not running")
        items = list(items)
        if chunksize < 1:
            raise ValueError("Chunksize must be 1+, not %r" % (chunksize,))
        chunks = [items[i:i + chunksize] for i in range(0, len(items), chunksize)]
        job = _Job(len(chunks))
        for i, batch in enumerate(chunks):
            self._tasks.append((job, i, func, batch, star))
        # workers are created lazily: as many as could ever be busy at once (identity-free, so this is
        # indistinguishable from `processes` threads competing for the queue)
        alive = len([w for w in self._workers if w.state != "D"])
        need = min(self._processes, self._busy + len(self._tasks)) - alive
        for _ in range(max(0, need)):
            k = len(self._workers)
            self._workers.append(self._sched.spawn("p%dw%d" % (self._no, k), self._worker))
        return job

    # ---------------------------------------------------------------- the API
    def imap(self, func, iterable, chunksize=1):
        job = self._submit(func, iterable, chunksize)
        return self._imap_iter(job)

    def _imap_iter(self, job):
        for i in range(len(job.results)):
            self._sched.wait(lambda i=i: job.ready(i), "pool.next")
            ok, val = job.results[i]
            if not ok:
                raise val
            for item in val:
                yield item

    def imap_unordered(self, func, iterable, chunksize=1):
        job = self._submit(func, iterable, chunksize)
        return self._imap_unordered_iter(job)

    def _imap_unordered_iter(self, job):
        seen = set()
        n = len(job.results)
        while len(seen) < n:
            self._sched.wait(lambda: job.done > len(seen), "pool.next")
            # completion order is the order in which results were set; ties cannot happen (one actor runs)
            for i in range(n):
                if i not in seen and job.ready(i):
                    seen.add(i)
                    ok, val = job.results[i]
                    if not ok:
                        raise val
                    for item in val:
                        yield item
                    break

    def _default_chunksize(self, n):
        chunksize, extra = divmod(n, self._processes * 4)
        if extra:
            chunksize += 1
        return max(1, chunksize)

    def map_async(self, func, iterable, chunksize=None, callback=None, error_callback=None):
        items = list(iterable)
        if chunksize is None:
            chunksize = self._default_chunksize(len(items))
        return _AsyncResult(self, self._submit(func, items, chunksize), lambda out: out)

    def map(self, func, iterable, chunksize=None):
        return self.map_async(func, iterable, chunksize).get()

    def starmap(self, func, iterable, chunksize=None):
        items = list(iterable)
        if chunksize is None:
            chunksize = self._default_chunksize(len(items))
        return _AsyncResult(self, self._submit(func, items, chunksize, star=True), lambda out: out).get()

    def apply_async(self, func, args=(), kwds=None, callback=None, error_callback=None):
        kwds = kwds or {}
        job = self._submit(lambda _: func(*args, **kwds), [None], 1)
        return _AsyncResult(self, job, lambda out: out[0])

    def apply(self, func, args=(), kwds=None):
        return self.apply_async(func, args, kwds).get()

    def close(self):
        if self._state == RUN:
            self._state = CLOSE

    def terminate(self):
        self._state = TERMINATE
        self._tasks.clear()

    def join(self):
        if self._state == RUN:
            raise ValueError("Pool is still running")
        self._sched.wait(lambda: all(w.state == "D" for w in self._workers), "pool.join")

    def __enter__(self):
        if self._state != RUN:
            raise ValueError("Pool not running")
        return self

    def __exit__(self, *exc):
        self.terminate()
        return False


# ----------------------------------------------------------------------------------------------
# concurrent.futures.ThreadPoolExecutor / threading.Thread stand-ins, so that a refactoring of the
# code under test to those APIs still runs under the scheduler (semantics: CPython 3.12).
class SimFuture:
    def __init__(self, sched):
        self._sched = sched
        self._state = "PENDING"  # PENDING | RUNNING | FINISHED | CANCELLED
        self._result = None
        self._exception = None
        self._callbacks = []

    def cancel(self):
        if self._state in ("RUNNING", "FINISHED"):
            return False
        if self._state == "PENDING":
            self._state = "CANCELLED"
            self._run_callbacks()
        return True

    def cancelled(self):
        return self._state == "CANCELLED"

    def running(self):
        return self._state == "RUNNING"

    def done(self):
        return self._state in ("FINISHED", "CANCELLED")

    def _run_callbacks(self):
        for cb in self._callbacks:
            try:
                cb(self)
            except Exception:
                pass

    def add_done_callback(self, fn):
        if self.done():
            fn(self)
        else:
            self._callbacks.append(fn)

    def _wait(self):
        self._sched.wait(self.done, "future.wait")

    def result(self, timeout=None):
        self._wait()
        if self._state == "CANCELLED":
            import concurrent.futures as cf
            raise cf.CancelledError()
        if self._exception is not None:
            raise self._exception
        return self._result

    def exception(self, timeout=None):
        self._wait()
        if self._state == "CANCELLED":
            import concurrent.futures as cf
            raise cf.CancelledError()
        return self._exception


class SimExecutor:
    def __init__(self, max_workers=None, thread_name_prefix="", initializer=None, initargs=()):
        sched = _CTX["sched"]
        if sched is None:
            raise RuntimeError("SimExecutor used outside a simulation")
        if max_workers is None:
            max_workers = 8
        if max_workers <= 0:
            raise ValueError("max_workers must be greater than 0")
        self._sched = sched
        self._max = max_workers
        self._initializer, self._initargs = initializer, initargs
        self._tasks = deque()
        self._workers = []
        self._busy = 0
        self._shutdown = False
        _CTX["pools"] += 1
        self._no = _CTX["pools"]
        _CTX["registry"].append(self)

    def _worker(self):
        sched = self._sched
        if self._initializer is not None:
            self._initializer(*self._initargs)
        while True:
            sched.wait(lambda: bool(self._tasks) or self._shutdown, "executor.get")
            if not self._tasks:
                return
            fut, fn, args, kwargs = self._tasks.popleft()
            if fut._state == "CANCELLED":
                continue
            fut._state = "RUNNING"
            self._busy += 1
            try:
                fut._result = fn(*args, **kwargs)
            except Exception as e:
                fut._exception = e
            self._busy -= 1
            sched("executor.done", "", 0)
            fut._state = "FINISHED"
            fut._run_callbacks()

    def submit(self, fn, /, *args, **kwargs):
        if self._shutdown:
            raise RuntimeError("cannot schedule new futures after shutdown")
        fut = SimFuture(self._sched)
        self._tasks.append((fut, fn, args, kwargs))
        alive = len([w for w in self._workers if w.state != "D"])
        if alive < min(self._max, self._busy + len(self._tasks)):
            self._workers.append(self._sched.spawn("e%dw%d" % (self._no, len(self._workers)), self._worker))
        return fut

    def map(self, fn, *iterables, timeout=None, chunksize=1):
        futs = [self.submit(fn, *args) for args in zip(*iterables)]

        def gen():
            try:
                for f in futs:
                    yield f.result()
            finally:
                for f in futs:
                    f.cancel()
        return gen()

    def shutdown(self, wait=True, *, cancel_futures=False):
        self._shutdown = True
        if cancel_futures:
            for (fut, fn, a, k) in list(self._tasks):
                fut.cancel()
        if wait:
            self._sched.wait(lambda: all(w.state == "D" for w in self._workers), "executor.join")

    def __enter__(self):
        return self

    def __exit__(self, *exc):
        self.shutdown(wait=True)
        return False


def sim_as_completed(fs, timeout=None):
    fs = list(fs)
    sched = _CTX["sched"]
    pending = list(fs)
    while pending:
        sched.wait(lambda: any(f.done() for f in pending), "futures.as_completed")
        for f in list(pending):
            if f.done():
                pending.remove(f)
                yield f


def sim_wait(fs, timeout=None, return_when="ALL_COMPLETED"):
    import collections
    fs = list(fs)
    sched = _CTX["sched"]
    if return_when == "FIRST_COMPLETED":
        sched.wait(lambda: any(f.done() for f in fs), "futures.wait")
    elif return_when == "FIRST_EXCEPTION":
        sched.wait(lambda: all(f.done() for f in fs) or any(f.done() and not f.cancelled() and f._exception is not None for f in fs),
                   "futures.wait")
    else:
        sched.wait(lambda: all(f.done() for f in fs), "futures.wait")
    R = collections.namedtuple("DoneAndNotDoneFutures", "done not_done")
    return R({f for f in fs if f.done()}, {f for f in fs if not f.done()})


class SimThread:
    """threading.Thread stand-in: start() makes the target a scheduler actor."""
    _count = 0

    def __init__(self, group=None, target=None, name=None, args=(), kwargs=None, *, daemon=None):
        SimThread._count += 1
        self._target, self._args, self._kwargs = target, args, kwargs or {}
        self.name = name or "SimThread-%d" % SimThread._count
        self.daemon = bool(daemon)
        self._actor = None
        self.ident = None

    def run(self):
        if self._target is not None:
            self._target(*self._args, **self._kwargs)

    def start(self):
        sched = _CTX["sched"]
        if sched is None:
            raise RuntimeError("SimThread used outside a simulation")
        if self._actor is not None:
            raise RuntimeError("threads can only be started once")
        _CTX["threads"] = _CTX.get("threads", 0) + 1
        self._actor = sched.spawn("t%d" % _CTX["threads"], self.run)
        self.ident = 10_000 + _CTX["threads"]

    def join(self, timeout=None):
        if self._actor is None:
            raise RuntimeError("cannot join thread before it is started")
        _CTX["sched"].wait(lambda: self._actor.state == "D", "thread.join")

    def is_alive(self):
        return self._actor is not None and self._actor.state != "D"

    def isDaemon(self):
        return self.daemon

    def setDaemon(self, d):
        self.daemon = bool(d)

"""Cuts the seams: replaces os / builtins.open / time / entropy / ThreadPool / requests / tqdm
attributes so that everything under /SIMFS goes to the simulator and everything else passes through.
"""
import builtins
import errno
import io
import os
import random as _random
import sys
import time as _time

from . import simfs as _simfs

PREFIX = _simfs.PREFIX
_STATE = {"fs": None, "sched": None, "clock": None, "installed": False, "saved": {}, "tripwire": {}}

_real = {}


def _simpath(p):
    """Return the str path if p addresses SimFS, else None.  While a run with a simulated working directory
    is active, relative paths used by the simulated process resolve against that directory."""
    if type(p) is str:
        if p.startswith(PREFIX) and (len(p) == len(PREFIX) or p[len(PREFIX)] == "/"):
            return p
        if _STATE.get("cwd") and not p.startswith("/") and _cwd_applies():
            return _STATE["cwd"] + "/" + p if p not in ("", ".") else _STATE["cwd"]
        return None
    if isinstance(p, int):
        return None
    try:
        q = os.fspath(p)
    except TypeError:
        return None
    if isinstance(q, bytes):
        q = os.fsdecode(q)
    if q.startswith(PREFIX) and (len(q) == len(PREFIX) or q[len(PREFIX)] == "/"):
        return q
    if _STATE.get("cwd") and not q.startswith("/") and _cwd_applies():
        return _STATE["cwd"] + "/" + q if q not in ("", ".") else _STATE["cwd"]
    return None


def _cwd_applies():
    s = _STATE["sched"]
    return s is not None and s.current is not None


def _isfd(x):
    return isinstance(x, int) and not isinstance(x, bool) and x >= _simfs.FD_BASE


def _no_kw(name, kw):
    for k, v in kw.items():
        if k in ("dir_fd", "src_dir_fd", "dst_dir_fd") and v is not None:
            raise _simfs.SimUnsupported("%s(%s=...)" % (name, k))


def _mk_wrappers():
    w = {}
    R = _real

    def stat(path, *, dir_fd=None, follow_symlinks=True):
        fs = _STATE["fs"]
        if fs is not None:
            if _isfd(path):
                return fs.os_fstat(path)
            p = _simpath(path)
            if p is not None:
                _no_kw("stat", {"dir_fd": dir_fd})
                return fs.stat(p) if follow_symlinks else fs.lstat(p)
        return R["stat"](path, dir_fd=dir_fd, follow_symlinks=follow_symlinks)

    def lstat(path, *, dir_fd=None):
        fs = _STATE["fs"]
        if fs is not None:
            p = _simpath(path)
            if p is not None:
                _no_kw("lstat", {"dir_fd": dir_fd})
                return fs.lstat(p)
        return R["lstat"](path, dir_fd=dir_fd)

    def access(path, mode, **kw):
        fs = _STATE["fs"]
        if fs is not None:
            p = _simpath(path)
            if p is not None:
                _no_kw("access", kw)
                return fs.access(p, mode)
        return R["access"](path, mode, **kw)

    def listdir(path="."):
        fs = _STATE["fs"]
        if fs is not None:
            p = _simpath(path)
            if p is not None:
                return fs.listdir(p)
        return R["listdir"](path)

    def scandir(path="."):
        fs = _STATE["fs"]
        if fs is not None:
            p = _simpath(path)
            if p is not None:
                return fs.scandir(p)
        return R["scandir"](path)

    def mkdir(path, mode=0o777, *, dir_fd=None):
        fs = _STATE["fs"]
        if fs is not None:
            p = _simpath(path)
            if p is not None:
                _no_kw("mkdir", {"dir_fd": dir_fd})
                return fs.mkdir(p, mode)
        return R["mkdir"](path, mode, dir_fd=dir_fd)

    def rmdir(path, *, dir_fd=None):
        fs = _STATE["fs"]
        if fs is not None:
            p = _simpath(path)
            if p is not None:
                _no_kw("rmdir", {"dir_fd": dir_fd})
                return fs.rmdir(p)
        return R["rmdir"](path, dir_fd=dir_fd)

    def remove(path, *, dir_fd=None):
        fs = _STATE["fs"]
        if fs is not None:
            p = _simpath(path)
            if p is not None:
                _no_kw("remove", {"dir_fd": dir_fd})
                return fs.unlink(p)
        return R["remove"](path, dir_fd=dir_fd)

    def unlink(path, *, dir_fd=None):
        fs = _STATE["fs"]
        if fs is not None:
            p = _simpath(path)
            if p is not None:
                _no_kw("unlink", {"dir_fd": dir_fd})
                return fs.unlink(p)
        return R["unlink"](path, dir_fd=dir_fd)

    def _two(name, src, dst, kw):
        fs = _STATE["fs"]
        if fs is not None:
            a, b = _simpath(src), _simpath(dst)
            if a is not None or b is not None:
                if a is None or b is None:
                    raise OSError(18, "Invalid cross-device link", os.fspath(src), None, os.fspath(dst))
                _no_kw(name, kw)
                return a, b
        return None

    def rename(src, dst, **kw):
        ab = _two("rename", src, dst, kw)
        if ab:
            return _STATE["fs"].rename(ab[0], ab[1])
        return R["rename"](src, dst, **kw)

    def replace(src, dst, **kw):
        ab = _two("replace", src, dst, kw)
        if ab:
            return _STATE["fs"].rename(ab[0], ab[1])
        return R["replace"](src, dst, **kw)

    def link(src, dst, **kw):
        kw.pop("follow_symlinks", None)
        ab = _two("link", src, dst, kw)
        if ab:
            return _STATE["fs"].link(ab[0], ab[1])
        return R["link"](src, dst, **kw)

    def symlink(src, dst, target_is_directory=False, *, dir_fd=None):
        fs = _STATE["fs"]
        if fs is not None:
            p = _simpath(dst)
            if p is not None:
                _no_kw("symlink", {"dir_fd": dir_fd})
                return fs.symlink(os.fspath(src), p)  # the text of a link is stored as given
        return R["symlink"](src, dst, target_is_directory, dir_fd=dir_fd)

    def readlink(path, *, dir_fd=None):
        fs = _STATE["fs"]
        if fs is not None:
            p = _simpath(path)
            if p is not None:
                _no_kw("readlink", {"dir_fd": dir_fd})
                t = fs.readlink(p)
                return os.fsencode(t) if isinstance(path, bytes) else t
        return R["readlink"](path, dir_fd=dir_fd)

    def utime(path, times=None, *, ns=None, dir_fd=None, follow_symlinks=True):
        fs = _STATE["fs"]
        if fs is not None:
            p = _simpath(path)
            if p is not None:
                _no_kw("utime", {"dir_fd": dir_fd})
                if times is not None and ns is not None:
                    raise ValueError("utime: you may specify either 'times' or 'ns' but not both")
                return fs.utime(p, times, ns, follow=follow_symlinks)
        if ns is not None:
            return R["utime"](path, ns=ns, dir_fd=dir_fd, follow_symlinks=follow_symlinks)
        return R["utime"](path, times, dir_fd=dir_fd, follow_symlinks=follow_symlinks)

    def chmod(path, mode, **kw):
        fs = _STATE["fs"]
        if fs is not None:
            p = _simpath(path)
            if p is not None:
                return fs.chmod(p, mode)
        return R["chmod"](path, mode, **kw)

    def truncate(path, length):
        fs = _STATE["fs"]
        if fs is not None:
            if _isfd(path):
                return fs.os_ftruncate(path, length)
            p = _simpath(path)
            if p is not None:
                return fs.truncate(p, length)
        return R["truncate"](path, length)

    def os_open(path, flags, mode=0o777, *, dir_fd=None):
        fs = _STATE["fs"]
        if fs is not None:
            p = _simpath(path)
            if p is not None:
                _no_kw("open", {"dir_fd": dir_fd})
                return fs.os_open(p, flags, mode)
        return R["open"](path, flags, mode, dir_fd=dir_fd)

    def close(fd):
        fs = _STATE["fs"]
        if fs is not None and _isfd(fd):
            return fs.os_close(fd)
        return R["close"](fd)

    def read(fd, n):
        fs = _STATE["fs"]
        if fs is not None and _isfd(fd):
            return fs.os_read(fd, n)
        return R["read"](fd, n)

    def write(fd, b):
        fs = _STATE["fs"]
        if fs is not None and _isfd(fd):
            return fs.os_write(fd, b)
        return R["write"](fd, b)

    def fstat(fd):
        fs = _STATE["fs"]
        if fs is not None and _isfd(fd):
            return fs.os_fstat(fd)
        return R["fstat"](fd)

    def sendfile(out_fd, in_fd, offset, count, *a, **kw):
        fs = _STATE["fs"]
        if fs is not None and (_isfd(out_fd) or _isfd(in_fd)):
            if _isfd(out_fd) and _isfd(in_fd):
                return fs.os_sendfile(out_fd, in_fd, offset, count)
            raise OSError(errno.EINVAL, os.strerror(errno.EINVAL))  # one end is not a file of the simulated disk
        return R["sendfile"](out_fd, in_fd, offset, count, *a, **kw)

    def lseek(fd, pos, how):
        fs = _STATE["fs"]
        if fs is not None and _isfd(fd):
            return fs.os_lseek(fd, pos, how)
        return R["lseek"](fd, pos, how)

    def ftruncate(fd, length):
        fs = _STATE["fs"]
        if fs is not None and _isfd(fd):
            return fs.os_ftruncate(fd, length)
        return R["ftruncate"](fd, length)

    def fsync(fd):
        fs = _STATE["fs"]
        if fs is not None and _isfd(fd):
            return fs.os_fsync(fd)
        return R["fsync"](fd)

    def fdatasync(fd):
        fs = _STATE["fs"]
        if fs is not None and _isfd(fd):
            return fs.os_fsync(fd)
        return R["fdatasync"](fd)

    def listxattr(path=None, **kw):
        if _STATE["fs"] is not None and path is not None and (_isfd(path) or _simpath(path) is not None):
            return []
        return R["listxattr"](path, **kw)

    def urandom(n):
        rng = _STATE.get("entropy")
        if rng is not None and _STATE["sched"] is not None and _STATE["sched"].current is not None:
            return bytes(rng.getrandbits(8) for _ in range(n))
        return R["urandom"](n)

    def getcwd():
        if _STATE.get("cwd") and _cwd_applies():
            return _STATE["cwd"]
        return R["getcwd"]()

    def getpid():
        if _STATE["sched"] is not None and _STATE["sched"].current is not None:
            return 4242 + _STATE.get("incarnation", 0)
        return R["getpid"]()

    for name, fn in list(locals().items()):
        if callable(fn) and not name.startswith("_") and name not in ("w", "R"):
            w[name] = fn
    w["open"] = w.pop("os_open")
    return w


_OS_NAMES = ["stat", "lstat", "access", "listdir", "scandir", "mkdir", "rmdir", "remove", "unlink", "rename",
             "replace", "link", "symlink", "readlink", "utime", "chmod", "truncate", "open", "close", "read",
             "write", "fstat", "sendfile", "lseek", "ftruncate", "fsync", "fdatasync", "listxattr", "urandom", "getpid", "getcwd"]


def _sim_open(file, mode="r", buffering=-1, encoding=None, errors=None, newline=None, closefd=True, opener=None):
    fs = _STATE["fs"]
    if fs is not None:
        if _isfd(file):
            return fs.open(file, mode, buffering, encoding, errors, newline, closefd, opener)
        p = _simpath(file)
        if p is not None:
            return fs.open(p, mode, buffering, encoding, errors, newline, closefd, opener)
    return _real["builtins.open"](file, mode, buffering, encoding, errors, newline, closefd, opener)


# --------------------------------------------------------------------- time
def _sim_time():
    s = _STATE["sched"]
    if s is not None and s.current is not None:
        return (_STATE["clock"].now + _STATE.get("proc_skew", 0)) / 1e9
    return _real["time.time"]()


def _sim_time_ns():
    s = _STATE["sched"]
    if s is not None and s.current is not None:
        return (_STATE["clock"].now + _STATE.get("proc_skew", 0))
    return _real["time.time_ns"]()


def _sim_monotonic():
    s = _STATE["sched"]
    if s is not None and s.current is not None:
        return _STATE["clock"].mono / 1e9
    return _real["time.monotonic"]()


def _sim_monotonic_ns():
    s = _STATE["sched"]
    if s is not None and s.current is not None:
        return _STATE["clock"].mono
    return _real["time.monotonic_ns"]()


def _sim_sleep(secs):
    s = _STATE["sched"]
    if s is not None and s.current is not None:
        _STATE["clock"].advance(int(max(0.0, secs) * 1e9))
        s("sleep", "", 0)
        return None
    return _real["time.sleep"](secs)


def _active():
    s = _STATE["sched"]
    return s is not None and s.current is not None


def _install_datetime():
    """datetime.now()/utcnow()/today() and date.today() read the C-level clock directly.  Subclasses that read
    the simulated clock while a run is active are prepared here (the technique freezegun uses) and are put
    into the *namespaces of the modules under test* by patch_datetime_in(); replacing datetime.datetime
    process-wide before third-party C extensions (pandas, numpy) are imported crashes the interpreter."""
    import datetime as _dt
    real_dt, real_date = _dt.datetime, _dt.date
    _real["datetime.datetime"], _real["datetime.date"] = real_dt, real_date

    class _DtMeta(type):
        def __instancecheck__(cls, obj):
            return isinstance(obj, real_dt)

        def __subclasscheck__(cls, sub):
            return issubclass(sub, real_dt)

    class _DateMeta(type):
        def __instancecheck__(cls, obj):
            return isinstance(obj, real_date)

        def __subclasscheck__(cls, sub):
            return issubclass(sub, real_date)

    class SimDateTime(real_dt, metaclass=_DtMeta):
        @classmethod
        def now(cls, tz=None):
            if _active():
                return real_dt.fromtimestamp((_STATE["clock"].now + _STATE.get("proc_skew", 0)) / 1e9, tz)
            return real_dt.now(tz)

        @classmethod
        def utcnow(cls):
            if _active():
                return real_dt.fromtimestamp((_STATE["clock"].now + _STATE.get("proc_skew", 0)) / 1e9, _dt.timezone.utc).replace(tzinfo=None)
            return real_dt.now(_dt.timezone.utc).replace(tzinfo=None)

        @classmethod
        def today(cls):
            return cls.now()

    class SimDate(real_date, metaclass=_DateMeta):
        @classmethod
        def today(cls):
            if _active():
                return real_dt.fromtimestamp((_STATE["clock"].now + _STATE.get("proc_skew", 0)) / 1e9).date()
            return real_date.today()

    SimDateTime.__name__ = SimDateTime.__qualname__ = "datetime"
    SimDate.__name__ = SimDate.__qualname__ = "date"

    class _DtModuleShim:
        """stands in for the `datetime` module inside a module under test"""
        datetime = SimDateTime
        date = SimDate

        def __getattr__(self, name):
            return getattr(_dt, name)

    _STATE["SimDateTime"], _STATE["SimDate"], _STATE["dt_shim"] = SimDateTime, SimDate, _DtModuleShim()


def patch_datetime_in(module):
    """Replace references to datetime.datetime / datetime.date / the datetime module held by `module`.
    Returns the list of (name, old value) to restore."""
    import datetime as _dt
    saved = []
    for name, val in list(vars(module).items()):
        new = None
        if val is _real["datetime.datetime"]:
            new = _STATE["SimDateTime"]
        elif val is _real["datetime.date"]:
            new = _STATE["SimDate"]
        elif val is _dt:
            new = _STATE["dt_shim"]
        if new is not None:
            saved.append((name, val))
            setattr(module, name, new)
    return saved


def _sim_localtime(secs=None):
    if secs is None and _active():
        secs = (_STATE["clock"].now + _STATE.get("proc_skew", 0)) / 1e9
    return _real["time.localtime"](secs) if secs is not None else _real["time.localtime"]()


def _sim_gmtime(secs=None):
    if secs is None and _active():
        secs = (_STATE["clock"].now + _STATE.get("proc_skew", 0)) / 1e9
    return _real["time.gmtime"](secs) if secs is not None else _real["time.gmtime"]()


def install_global():
    """Patch process-wide names once.  With no world bound, every wrapper passes through."""
    if _STATE["installed"]:
        return
    _install_datetime()
    for n in ("localtime", "gmtime"):
        _real["time." + n] = getattr(_time, n)
    _time.localtime = _sim_localtime
    _time.gmtime = _sim_gmtime
    for n in _OS_NAMES:
        if hasattr(os, n):
            _real[n] = getattr(os, n)
    _real["builtins.open"] = builtins.open
    for n in ("time", "time_ns", "monotonic", "monotonic_ns", "sleep", "perf_counter", "perf_counter_ns"):
        _real["time." + n] = getattr(_time, n)
    wrappers = _mk_wrappers()
    for n in _OS_NAMES:
        if n in _real and n in wrappers:
            wrappers[n].__name__ = n
            setattr(os, n, wrappers[n])
    builtins.open = _sim_open
    io.open = _sim_open
    _real["builtins.hash"] = builtins.hash
    builtins.hash = _sim_hash
    _time.time = _sim_time
    _time.time_ns = _sim_time_ns
    _time.monotonic = _sim_monotonic
    _time.monotonic_ns = _sim_monotonic_ns
    _time.perf_counter = lambda: _sim_monotonic() if _active() else _real["time.perf_counter"]()
    _time.perf_counter_ns = lambda: _sim_monotonic_ns() if _active() else _real["time.perf_counter_ns"]()
    _time.sleep = _sim_sleep
    _STATE["installed"] = True


def bind(fs, sched, clock, entropy_seed=0, cwd=None):
    install_global()
    _STATE["cwd"] = cwd
    _STATE["fs"] = fs
    _STATE["sched"] = sched
    _STATE["clock"] = clock
    _STATE["entropy"] = _random.Random(entropy_seed)
    _STATE["incarnation"] = 0
    _STATE["hash_salt"] = entropy_seed
    _STATE["proc_skew"] = 0
    _random.seed(entropy_seed)
    try:
        import tempfile
        tempfile._name_sequence = None
        rng = _random.Random(entropy_seed ^ 0x5EED)

        class _DetNames(tempfile._RandomNameSequence):
            @property
            def rng(self):
                return rng

        tempfile._name_sequence = _DetNames()
    except Exception:  # pragma: no cover
        pass
    try:
        import uuid
        _real.setdefault("uuid4", uuid.uuid4)
        ent = _STATE["entropy"]
        uuid.uuid4 = lambda: uuid.UUID(int=ent.getrandbits(128), version=4)
    except Exception:  # pragma: no cover
        pass


def unbind():
    _STATE["cwd"] = None
    _STATE["fs"] = None
    _STATE["sched"] = None
    _STATE["clock"] = None
    _STATE["entropy"] = None
    try:
        import tempfile
        tempfile._name_sequence = None
        import uuid
        if "uuid4" in _real:
            uuid.uuid4 = _real["uuid4"]
    except Exception:  # pragma: no cover
        pass


def _sim_hash(obj):
    """builtins.hash as the code under test sees it: str/bytes hashes are salted PER PROCESS (PYTHONHASHSEED is random by
    default), so a value derived from hash('...') must not survive a simulated process restart unchanged.  Deterministic:
    the salt is (run entropy seed, incarnation number), the digest is blake2 - not the interpreter's own salted hash."""
    if _STATE["sched"] is not None and type(obj) in (str, bytes):
        import hashlib as _hl
        data = obj.encode("utf-8", "surrogatepass") if isinstance(obj, str) else obj
        salt = ("%s|%s|" % (_STATE.get("hash_salt", 0), _STATE.get("incarnation", 0))).encode()
        return int.from_bytes(_hl.blake2b(salt + data, digest_size=8).digest(), "big", signed=True)
    return _real["builtins.hash"](obj)


def real_open(*a, **kw):
    return (_real.get("builtins.open") or builtins.open)(*a, **kw)

"""SimFS: an in-memory POSIX-like file system that lives behind the os / open seam.

Only paths under PREFIX are served.  Every primitive first calls ``self.hook``
(the scheduler's yield point: pre-emption, fault and crash decisions happen
there, *before* the effect is applied) and then applies its effect atomically.
Timestamps come from the simulated clock.  No host state is touched.
"""
import errno
import io
import os
import posixpath
import stat as _stat

PREFIX = "/SIMFS"
FD_BASE = 1_000_000
DEV = 0x51F5


class SimUnsupported(Exception):
    """The code under test used a file-system feature SimFS does not model."""


def _err(code, path=None, path2=None):
    if path2 is not None:
        return OSError(code, os.strerror(code), path, None, path2)
    if path is not None:
        return OSError(code, os.strerror(code), path)
    return OSError(code, os.strerror(code))


class Inode:
    __slots__ = ("ino", "kind", "data", "children", "atime", "mtime", "ctime", "nlink", "mode", "opens", "gen", "target", "holes")

    def __init__(self, ino, kind, now, mode):
        self.ino = ino
        self.kind = kind  # 'f' | 'd' | 'l' (symbolic link: .target holds the text of the link)
        self.target = None
        self.data = bytearray() if kind == "f" else None
        self.children = {} if kind == "d" else None
        self.atime = self.mtime = self.ctime = now
        self.nlink = 1 if kind == "f" else 2
        self.mode = mode
        self.opens = 0
        self.holes = None  # set of 4096-byte block numbers inside the file that were never written (a sparse file)
        self.gen = 0  # bumped by every change of the file's data (harness-side identity of "this content")


class OpenFile:
    __slots__ = ("inode", "pos", "readable", "writable", "append", "path", "closed", "owner")

    def __init__(self, inode, readable, writable, append, path, owner):
        self.inode = inode
        self.pos = 0
        self.readable = readable
        self.writable = writable
        self.append = append
        self.path = path
        self.closed = False
        self.owner = owner


class NullHook:
    """Hook used when no scheduler is attached (unit tests of SimFS itself)."""

    def __call__(self, kind, path="", n=0, mut=False):
        return None

    def owner(self):
        return None


class SimFS:
    def __init__(self, clock, hook=None, atime_policy="relatime", listing="sorted", rng=None,
                 buffer_size=io.DEFAULT_BUFFER_SIZE):
        self.clock = clock
        self.hook = hook or NullHook()
        self.atime_policy = atime_policy  # strict | relatime | noatime
        self.listing = listing  # sorted | permuted
        self.rng = rng
        self.buffer_size = buffer_size
        self._ino = 1
        self.root = Inode(self._next_ino(), "d", clock.stamp(), 0o755)
        self.fds = {}
        self._next_fd = FD_BASE
        self.open_files = []  # every OpenFile ever handed out and not yet closed
        self.sendfile_cap = None  # most bytes one sendfile() call moves in this run (None: whatever is asked for)
        self.sendfile_calls = 0
        self.fd_limit = None  # RLIMIT_NOFILE of the simulated process (descriptors + open file objects)
        self.other_device_prefix = None  # e.g. /SIMFS/tmp when the temp directory is another file system
        self.unlink_log = []  # (path, ino, atime, mtime, size) for every unlink/replace victim
        self.mutations = 0

    # ------------------------------------------------------------------ helpers
    def _next_ino(self):
        self._ino += 1
        return self._ino

    @staticmethod
    def split(path):
        path = posixpath.normpath(path)
        if path != PREFIX and not path.startswith(PREFIX + "/"):
            raise SimUnsupported("path outside SimFS: %r" % path)
        rel = path[len(PREFIX):]
        return [p for p in rel.split("/") if p]

    def _walk(self, path, follow_last=True):
        """Resolve a path -> (parent directory node, last name, node or None).  Symbolic links in directory
        components are always followed, a link in the last component only if follow_last.  With follow_last and
        a dangling last link the result names the place the link points at (parent, name, None) - which is where
        open(..., O_CREAT) creates the file."""
        parts = self.split(path)
        if not parts:
            return None, None, self.root
        stack = [self.root]  # directory nodes from the root down to the current directory
        hops = 0
        i = 0
        while True:
            p = parts[i]
            cur = stack[-1]
            last = i == len(parts) - 1
            if p == "..":
                if len(stack) > 1:
                    stack.pop()
                if last:
                    # (only reachable through a link target ending in '..')
                    node = stack[-1]
                    if len(stack) > 1:
                        par = stack[-2]
                        name = next(n for n, c in par.children.items() if c is node)
                        return par, name, node
                    return None, None, node
                i += 1
                continue
            if cur.kind != "d":
                raise _err(errno.ENOTDIR, path)
            nxt = cur.children.get(p)
            if nxt is None:
                if last:
                    return cur, p, None
                raise _err(errno.ENOENT, path)
            if nxt.kind == "l" and (not last or follow_last):
                hops += 1
                if hops > 40:
                    raise _err(errno.ELOOP, path)
                tgt = nxt.target
                if tgt.startswith("/"):
                    if tgt != PREFIX and not tgt.startswith(PREFIX + "/"):
                        raise _err(errno.ENOENT, path)  # points outside the simulated world: nothing there
                    tparts = [x for x in tgt[len(PREFIX):].split("/") if x and x != "."]
                    stack = [self.root]
                else:
                    tparts = [x for x in tgt.split("/") if x and x != "."]
                parts = tparts + parts[i + 1:]
                i = 0
                if not parts:
                    node = stack[-1]
                    if len(stack) > 1:
                        par = stack[-2]
                        name = next(n for n, c in par.children.items() if c is node)
                        return par, name, node
                    return None, None, node
                continue
            if last:
                return cur, p, nxt
            if nxt.kind != "d":
                raise _err(errno.ENOTDIR, path)
            stack.append(nxt)
            i += 1

    def _lookup(self, path, want_parent=False, follow=True):
        """want_parent: (directory node, last name) WITHOUT following a link in the last component (unlink, rename,
        mkdir ... act on the link itself).  Otherwise the node the path names, following links (follow=False: lstat)."""
        if want_parent:
            parent, name, _node = self._walk(path, follow_last=False)
            if parent is None:
                raise _err(errno.EBUSY, path)
            return parent, name
        parent, name, node = self._walk(path, follow_last=follow)
        if node is None:
            raise _err(errno.ENOENT, path)
        return node

    def _lookup_for_open(self, path):
        """(parent, name, node or None) of the place the path names after following links (also a dangling last one)"""
        parent, name, node = self._walk(path, follow_last=True)
        if parent is None:
            raise _err(errno.EISDIR, path)
        return parent, name, node

    def _stat_result(self, node):
        if node.kind == "l":
            mode = _stat.S_IFLNK | 0o777
            size = len(node.target.encode())
        else:
            mode = (_stat.S_IFDIR if node.kind == "d" else _stat.S_IFREG) | node.mode
            size = len(node.data) if node.kind == "f" else 4096
        a, m, c = node.atime, node.mtime, node.ctime
        return os.stat_result((
            mode, node.ino, DEV, node.nlink, 0, 0, size,
            a // 10**9, m // 10**9, c // 10**9,
            a / 1e9, m / 1e9, c / 1e9,
            a, m, c,
            4096, self._blocks512(node, size), 0,
        ))

    BLOCK = 4096

    def _blocks512(self, node, size):
        """st_blocks: whole file-system blocks allocated to the file, in 512-byte units.  A block a process never
        wrote into (it seeked or truncated past it) is a hole and takes no space: st_blocks * 512 may be far
        below st_size (sparse files; seeded change s203 sized the cache by it)"""
        if node.kind != "f":
            return (size + 511) // 512
        n = (size + self.BLOCK - 1) // self.BLOCK
        if node.holes:
            n -= len(node.holes)
        return max(0, n) * (self.BLOCK // 512)

    def _note_gap(self, node, start, end):
        """bytes [start, end) came into being without being written: the blocks lying entirely inside are holes"""
        first = (start + self.BLOCK - 1) // self.BLOCK
        last = end // self.BLOCK
        if last > first:
            if node.holes is None:
                node.holes = set()
            node.holes.update(range(first, last))

    def _note_written(self, node, start, end):
        if node.holes and end > start:
            for b in range(start // self.BLOCK, (end - 1) // self.BLOCK + 1):
                node.holes.discard(b)

    def _note_cut(self, node, length):
        if node.holes:
            keep = (length + self.BLOCK - 1) // self.BLOCK
            node.holes = {b for b in node.holes if b < keep}

    def _touch_atime(self, node):
        pol = self.atime_policy
        if pol == "noatime":
            return
        now = self.clock.stamp()
        if pol == "strict" or node.atime <= node.mtime or node.atime <= node.ctime or now - node.atime >= 86400 * 10**9:
            node.atime = now

    def _order(self, names):
        names = sorted(names)
        if self.listing == "permuted" and self.rng is not None and len(names) > 1:
            self.rng.shuffle(names)
        return names

    # --------------------------------------------------------------- path ops
    def stat(self, path):
        self.hook("stat", path)
        return self._stat_result(self._lookup(path))

    def lstat(self, path):
        self.hook("stat", path)
        return self._stat_result(self._lookup(path, follow=False))

    def symlink(self, target, path):
        self.hook("symlink", path, mut=True)
        parent, name = self._lookup(path, want_parent=True)
        if name in parent.children:
            raise _err(errno.EEXIST, target, path)
        now = self.clock.stamp()
        node = Inode(self._next_ino(), "l", now, 0o777)
        node.data = None
        node.target = str(target)
        parent.children[name] = node
        parent.mtime = parent.ctime = now
        self.mutations += 1

    def readlink(self, path):
        self.hook("stat", path)
        node = self._lookup(path, follow=False)
        if node.kind != "l":
            raise _err(errno.EINVAL, path)
        return node.target

    def access(self, path, mode):
        self.hook("stat", path)
        try:
            self._lookup(path)
        except OSError:
            return False
        return True

    def listdir(self, path):
        self.hook("listdir", path)
        node = self._lookup(path)
        if node.kind != "d":
            raise _err(errno.ENOTDIR, path)
        return self._order(node.children.keys())

    def scandir(self, path):
        self.hook("scandir", path)
        node = self._lookup(path)
        if node.kind != "d":
            raise _err(errno.ENOTDIR, path)
        names = self._order(node.children.keys())
        return SimScandir(self, path, [(n, node.children[n]) for n in names])

    def mkdir(self, path, mode=0o777):
        self.hook("mkdir", path, mut=True)
        parent, name = self._lookup(path, want_parent=True)
        if name in parent.children:
            raise _err(errno.EEXIST, path)
        now = self.clock.stamp()
        parent.children[name] = Inode(self._next_ino(), "d", now, mode & 0o777)
        parent.nlink += 1
        parent.mtime = parent.ctime = now
        self.mutations += 1

    def rmdir(self, path):
        self.hook("rmdir", path, mut=True)
        parent, name = self._lookup(path, want_parent=True)
        node = parent.children.get(name)
        if node is None:
            raise _err(errno.ENOENT, path)
        if node.kind != "d":
            raise _err(errno.ENOTDIR, path)
        if node.children:
            raise _err(errno.ENOTEMPTY, path)
        del parent.children[name]
        parent.nlink -= 1
        parent.mtime = parent.ctime = self.clock.stamp()
        self.mutations += 1

    def unlink(self, path):
        self.hook("unlink", path, mut=True)
        parent, name = self._lookup(path, want_parent=True)
        node = parent.children.get(name)
        if node is None:
            raise _err(errno.ENOENT, path)
        if node.kind == "d":
            raise _err(errno.EISDIR, path)
        seen = node
        if node.kind == "l":
            # (harness-side log) a removed link is logged with the stamps and size stat() showed for it: those of
            # the file it named - that is what recency means for a cache entry that is a link
            try:
                t = self._lookup(path)
                if t.kind == "f":
                    seen = t
            except OSError:
                pass
        self.unlink_log.append((posixpath.normpath(path), seen.ino, seen.atime, seen.mtime,
                                len(seen.data) if seen.data is not None else 0, "unlink"))
        del parent.children[name]
        node.nlink -= 1
        now = self.clock.stamp()
        node.ctime = now
        parent.mtime = parent.ctime = now
        self.mutations += 1

    def rename(self, src, dst, replace=True):
        self.hook("rename", src, mut=True)
        if self.other_device_prefix:
            a_in = posixpath.normpath(src).startswith(self.other_device_prefix + "/")
            b_in = posixpath.normpath(dst).startswith(self.other_device_prefix + "/")
            if a_in != b_in:
                raise _err(errno.EXDEV, src, dst)  # a different mounted file system
        sp, sn = self._lookup(src, want_parent=True)
        dp, dn = self._lookup(dst, want_parent=True)
        node = sp.children.get(sn)
        if node is None:
            raise _err(errno.ENOENT, src, dst)
        if node.kind == "d":
            a, b = posixpath.normpath(src), posixpath.normpath(dst)
            if b.startswith(a + "/") or self._dir_contains(node, dp):
                raise _err(errno.EINVAL, src, dst)  # a directory cannot be moved into itself (also not via a link)
        old = dp.children.get(dn)
        if old is node:
            return
        if old is not None and old.kind == "d" and posixpath.normpath(src).startswith(posixpath.normpath(dst) + "/"):
            raise _err(errno.ENOTEMPTY, src, dst)
        if old is not None:
            if old.kind == "d" and node.kind != "d":
                raise _err(errno.EISDIR, src, dst)
            if old.kind != "d" and node.kind == "d":
                raise _err(errno.ENOTDIR, src, dst)
            if old.kind == "d" and old.children:
                raise _err(errno.ENOTEMPTY, src, dst)
            if old.kind in ("f", "l"):
                self.unlink_log.append((posixpath.normpath(dst), old.ino, old.atime, old.mtime,
                                        len(old.data) if old.data is not None else 0, "replaced"))
                old.nlink -= 1
            else:
                dp.nlink -= 1
        del sp.children[sn]
        dp.children[dn] = node
        if node.kind == "d":
            sp.nlink -= 1
            dp.nlink += 1
        now = self.clock.stamp()
        node.ctime = now
        sp.mtime = sp.ctime = now
        dp.mtime = dp.ctime = now
        self.mutations += 1

    def _dir_contains(self, top, wanted):
        if top is wanted:
            return True
        todo = [top]
        while todo:
            n = todo.pop()
            for c in n.children.values():
                if c is wanted:
                    return True
                if c.kind == "d":
                    todo.append(c)
        return False

    def link(self, src, dst):
        self.hook("link", src, mut=True)
        node = self._lookup(src, follow=False)  # link(2) does not follow a symbolic link: it links the link itself
        dp, dn = self._lookup(dst, want_parent=True)
        if dn in dp.children:
            raise _err(errno.EEXIST, src, dst)
        if node.kind == "d":
            raise _err(errno.EPERM, src, dst)
        dp.children[dn] = node
        node.nlink += 1
        now = self.clock.stamp()
        node.ctime = now
        dp.mtime = dp.ctime = now
        self.mutations += 1

    def utime(self, path, times=None, ns=None, follow=True):
        self.hook("utime", path, mut=True)
        node = self._lookup(path, follow=follow)
        now = self.clock.stamp()
        if ns is not None:
            node.atime, node.mtime = int(ns[0]), int(ns[1])
        elif times is not None:
            node.atime, node.mtime = int(round(times[0] * 1e9)), int(round(times[1] * 1e9))
        else:
            node.atime = node.mtime = now
        node.ctime = now
        self.mutations += 1

    def chmod(self, path, mode):
        self.hook("chmod", path, mut=True)
        node = self._lookup(path)
        node.mode = mode & 0o7777
        node.ctime = self.clock.stamp()

    def truncate(self, path, length):
        self.hook("truncate", path, length, mut=True)
        node = self._lookup(path)
        if node.kind != "f":
            raise _err(errno.EISDIR, path)
        self._resize(node, length)

    def _resize(self, node, length):
        cur = len(node.data)
        if length < cur:
            del node.data[length:]
            self._note_cut(node, length)
        elif length > cur:
            node.data.extend(b"\0" * (length - cur))
            self._note_gap(node, cur, ((length + self.BLOCK - 1) // self.BLOCK) * self.BLOCK)
        node.mtime = node.ctime = self.clock.stamp()
        node.gen += 1
        self.mutations += 1

    # --------------------------------------------------------------- open files
    def _open(self, path, readable, writable, append, create, excl, trunc, mode=0o666, kind="open", allow_dir=False):
        self.hook(kind, path, mut=(create or trunc))
        if self.fd_limit is not None and len(self.open_files) >= self.fd_limit:
            raise _err(errno.EMFILE, path)
        if create and excl:
            # O_EXCL does not follow a link in the last component: an existing link (even dangling) is EEXIST
            parent, name = self._lookup(path, want_parent=True)
            node = parent.children.get(name)
        else:
            parent, name, node = self._lookup_for_open(path)
        now = self.clock.stamp()
        if node is None:
            if not create:
                raise _err(errno.ENOENT, path)
            node = Inode(self._next_ino(), "f", now, mode & 0o666)
            parent.children[name] = node
            parent.mtime = parent.ctime = now
            self.mutations += 1
        else:
            if create and excl:
                raise _err(errno.EEXIST, path)
            if node.kind == "d":
                if writable or not allow_dir:
                    raise _err(errno.EISDIR, path)
                # os.open(directory, O_RDONLY): legal (used to fsync a directory after a rename); reading fails
                of = OpenFile(node, False, False, False, posixpath.normpath(path), self.hook.owner())
                node.opens += 1
                self.open_files.append(of)
                return of
            if trunc and writable:
                if len(node.data):
                    del node.data[:]
                node.holes = None
                node.mtime = node.ctime = now
                node.gen += 1
                self.mutations += 1
        of = OpenFile(node, readable, writable, append, posixpath.normpath(path), self.hook.owner())
        if append:
            of.pos = len(node.data)
        node.opens += 1
        self.open_files.append(of)
        return of

    def _close(self, of):
        if of.closed:
            return
        of.closed = True
        of.inode.opens -= 1
        try:
            self.open_files.remove(of)
        except ValueError:
            pass

    def _read(self, of, n):
        if not of.readable:
            raise _err(errno.EBADF)
        self.hook("read", of.path, n)
        data = of.inode.data
        chunk = bytes(data[of.pos:of.pos + n])
        of.pos += len(chunk)
        if chunk:
            self._touch_atime(of.inode)
        return chunk

    def _write(self, of, b):
        if not of.writable:
            raise _err(errno.EBADF)
        n = len(b)
        directive = self.hook("write", of.path, n, mut=True)
        if directive is not None:
            # ("short", k): accept only k bytes; ("torn", k): apply k bytes then the process dies
            k = max(0, min(n, directive[1]))
            b = bytes(b[:k])
            n = k
        node = of.inode
        if of.append:
            of.pos = len(node.data)
        end = of.pos + n
        if of.pos > len(node.data):
            self._note_gap(node, len(node.data), of.pos)
            node.data.extend(b"\0" * (of.pos - len(node.data)))
        node.data[of.pos:end] = b
        self._note_written(node, of.pos, end)
        of.pos = end
        if n:
            node.mtime = node.ctime = self.clock.stamp()
        node.gen += 1
        self.mutations += 1
        if directive is not None and directive[0] == "torn":
            self.hook.die()
        return n

    def open(self, file, mode="r", buffering=-1, encoding=None, errors=None, newline=None, closefd=True, opener=None):
        """The replacement for builtins.open / io.open on SimFS paths (or fake fds)."""
        if opener is not None:
            raise SimUnsupported("open(opener=...)")
        if not isinstance(mode, str):
            raise TypeError("invalid mode: %r" % (mode,))
        modes = set(mode)
        if modes - set("axrwb+tU") or len(mode) > len(modes):
            raise ValueError("invalid mode: %r" % mode)
        creating = "x" in modes
        reading = "r" in modes
        writing = "w" in modes
        appending = "a" in modes
        updating = "+" in modes
        text = "t" in modes
        binary = "b" in modes
        if text and binary:
            raise ValueError("can't have text and binary mode at once")
        if creating + reading + writing + appending != 1:
            raise ValueError("must have exactly one of create/read/write/append mode")
        if binary and encoding is not None:
            raise ValueError("binary mode doesn't take an encoding argument")
        if binary and errors is not None:
            raise ValueError("binary mode doesn't take an errors argument")
        if binary and newline is not None:
            raise ValueError("binary mode doesn't take a newline argument")
        readable = reading or updating
        writable = writing or appending or creating or updating
        if isinstance(file, int):
            of = self.fds.get(file)
            if of is None:
                raise _err(errno.EBADF)
            if closefd:
                del self.fds[file]
            else:
                raise SimUnsupported("open(fd, closefd=False)")
            of.readable, of.writable = readable, writable
            of.append = of.append or appending
            name = file
        else:
            path = os.fspath(file)
            if isinstance(path, bytes):
                path = os.fsdecode(path)
            of = self._open(path, readable, writable, appending,
                            create=(writing or appending or creating), excl=creating, trunc=writing)
            name = file
        raw = SimRaw(self, of, name, ("x" if creating else "") + ("r" if reading else "") + ("w" if writing else "")
                     + ("a" if appending else "") + ("+" if updating else ""))
        line_buffering = False
        if buffering == 1:
            buffering = -1
            line_buffering = True
        if buffering < 0:
            buffering = self.buffer_size
        if buffering == 0:
            if binary:
                return raw
            raise ValueError("can't have unbuffered text I/O")
        if updating:
            buf = io.BufferedRandom(raw, buffering)
        elif writable:
            buf = io.BufferedWriter(raw, buffering)
        else:
            buf = io.BufferedReader(raw, buffering)
        if binary:
            return buf
        # the host default is locale-dependent; pin it so that runs do not depend on the environment
        tw = io.TextIOWrapper(buf, encoding or "utf-8", errors, newline, line_buffering)
        tw.mode = mode
        return tw

    # ----------------------------------------------------------------- fd level
    def os_open(self, path, flags, mode=0o777):
        acc = flags & os.O_ACCMODE
        readable = acc in (os.O_RDONLY, os.O_RDWR)
        writable = acc in (os.O_WRONLY, os.O_RDWR)
        of = self._open(path, readable, writable, bool(flags & os.O_APPEND), bool(flags & os.O_CREAT),
                        bool(flags & os.O_EXCL), bool(flags & os.O_TRUNC), mode, kind="open", allow_dir=True)
        fd = self._next_fd
        self._next_fd += 1
        self.fds[fd] = of
        return fd

    def _fd(self, fd):
        of = self.fds.get(fd)
        if of is None:
            raise _err(errno.EBADF)
        return of

    def os_close(self, fd):
        of = self._fd(fd)
        del self.fds[fd]
        self._close(of)

    def os_read(self, fd, n):
        return self._read(self._fd(fd), n)

    def os_write(self, fd, b):
        return self._write(self._fd(fd), bytes(b))

    def os_sendfile(self, out_fd, in_fd, offset, count):
        """sendfile(2) between two files of the simulated disk.  One call may move fewer bytes than asked for (the kernel
        moves at most 0x7ffff000 per call and may stop earlier at any time): `sendfile_cap` is that bound for this run.
        The write goes through the ordinary write path, so it is a pre-emption, fault and crash point."""
        src, dst = self._fd(in_fd), self._fd(out_fd)
        if not src.readable or not dst.writable:
            raise _err(errno.EBADF)
        if count < 0:
            raise _err(errno.EINVAL)
        # (a large file is still moved in at most ~16 calls: the bound scales with the file)
        n = count if self.sendfile_cap is None else min(count, max(self.sendfile_cap, len(src.inode.data) // 16))
        self.hook("read", src.path, n)
        start = src.pos if offset is None else offset
        chunk = bytes(src.inode.data[start:start + n])
        if not chunk:
            return 0
        self._touch_atime(src.inode)
        done = self._write(dst, chunk)
        if done == 0:
            # an injected short write that accepted nothing: sendfile() returns 0 only at end of file, the call goes on
            done = self._write(dst, chunk)
        if offset is None:
            src.pos += done
        self.sendfile_calls += 1
        return done

    def os_fstat(self, fd):
        return self._stat_result(self._fd(fd).inode)

    def os_lseek(self, fd, pos, how):
        of = self._fd(fd)
        return _seek(of, pos, how)

    def os_ftruncate(self, fd, length):
        of = self._fd(fd)
        self.hook("truncate", of.path, length, mut=True)
        self._resize(of.inode, length)

    def os_fsync(self, fd):
        self._fd(fd)
        self.hook("fsync", "", 0)

    # --------------------------------------------------- harness-side (no hooks)
    def h_exists(self, path):
        try:
            self._lookup(path)
            return True
        except OSError:
            return False

    def h_node(self, path):
        try:
            return self._lookup(path)
        except OSError:
            return None

    def h_read(self, path):
        node = self._lookup(path)
        return bytes(node.data)

    def h_listdir(self, path):
        node = self.h_node(path)
        if node is None or node.kind != "d":
            return []
        return sorted(node.children.keys())

    def h_write(self, path, data, stamp=None):
        parent, name = self._lookup(path, want_parent=True)
        now = self.clock.stamp() if stamp is None else stamp
        node = parent.children.get(name)
        if node is None:
            node = Inode(self._next_ino(), "f", now, 0o644)
            parent.children[name] = node
        node.data = bytearray(data)
        node.holes = None
        node.atime = node.mtime = node.ctime = now
        return node

    def h_symlink(self, target, path):
        parent, name = self._lookup(path, want_parent=True)
        node = Inode(self._next_ino(), "l", self.clock.stamp(), 0o777)
        node.data = None
        node.target = str(target)
        parent.children[name] = node
        return node

    def h_mkdirs(self, path):
        node = self.root
        for p in self.split(path):
            nxt = node.children.get(p)
            if nxt is None:
                nxt = Inode(self._next_ino(), "d", self.clock.stamp(), 0o755)
                node.children[p] = nxt
                node.nlink += 1
            node = nxt
        return node

    def h_tree(self, path=PREFIX):
        """[(path, kind, size, atime, mtime, sha-able bytes)] depth first, sorted: the durable image."""
        out = []

        def rec(p, node):
            if node.kind == "d":
                out.append((p, "d", 0, 0, 0, b"", node.ino, 0))
                for n in sorted(node.children):
                    rec(p + "/" + n, node.children[n])
            elif node.kind == "l":
                out.append((p, "l", 0, node.atime, node.mtime, node.target.encode(), node.ino, 0))
            else:
                out.append((p, "f", len(node.data), node.atime, node.mtime, bytes(node.data), node.ino, node.gen))

        node = self.h_node(path)
        if node is not None:
            rec(posixpath.normpath(path), node)
        return out

    def h_force_close_owned_by(self, owners):
        """A dead process' descriptors vanish without flushing anything."""
        for of in list(self.open_files):
            if of.owner in owners:
                self._close(of)
        for fd, of in list(self.fds.items()):
            if of.closed:
                del self.fds[fd]


def _seek(of, pos, how):
    if how == 0:
        new = pos
    elif how == 1:
        new = of.pos + pos
    elif how == 2:
        new = len(of.inode.data) + pos
    else:
        raise _err(errno.EINVAL)
    if new < 0:
        raise _err(errno.EINVAL)
    of.pos = new
    return new


class SimRaw(io.RawIOBase):
    """Raw file object handed to the real io.Buffered*/TextIOWrapper classes."""

    def __init__(self, fs, of, name, mode):
        super().__init__()
        self._fs = fs
        self._of = of
        self.name = name
        self.mode = mode if "b" in mode else mode + "b"
        self._fd = None

    def readable(self):
        return self._of.readable

    def writable(self):
        return self._of.writable

    def seekable(self):
        return True

    def fileno(self):
        # a fake descriptor (>= 10^6, never a host one) naming the same open file, so that os.fsync(f.fileno()),
        # os.fstat(f.fileno()) ... reach the simulated file; it goes away when the file object is closed
        if self.closed:
            raise ValueError("I/O operation on closed file")
        if self._fd is None:
            fs = self._fs
            self._fd = fs._next_fd
            fs._next_fd += 1
            fs.fds[self._fd] = self._of
        return self._fd

    def isatty(self):
        return False

    def readinto(self, b):
        if self.closed:
            raise ValueError("I/O operation on closed file")
        if not self._of.readable:
            raise io.UnsupportedOperation("not readable")
        chunk = self._fs._read(self._of, len(b))
        n = len(chunk)
        b[:n] = chunk
        return n

    def write(self, b):
        if self.closed:
            raise ValueError("I/O operation on closed file")
        if not self._of.writable:
            raise io.UnsupportedOperation("not writable")
        return self._fs._write(self._of, bytes(b))

    def seek(self, pos, whence=0):
        if self.closed:
            raise ValueError("I/O operation on closed file")
        return _seek(self._of, pos, whence)

    def tell(self):
        return self._of.pos

    def truncate(self, size=None):
        if size is None:
            size = self._of.pos
        self._fs.hook("truncate", self._of.path, size, mut=True)
        self._fs._resize(self._of.inode, size)
        return size

    def close(self):
        if not self.closed:
            try:
                super().close()
            finally:
                if self._fd is not None:
                    self._fs.fds.pop(self._fd, None)
                self._fs._close(self._of)


class SimDirEntry:
    __slots__ = ("name", "path", "_fs", "_node")

    def __init__(self, fs, dirpath, name, node):
        self.name = name
        self.path = posixpath.join(dirpath, name)
        self._fs = fs
        self._node = node

    def _resolved(self, follow_symlinks):
        if self._node.kind == "l" and follow_symlinks:
            try:
                return self._fs._lookup(self.path)
            except FileNotFoundError:
                return None  # a dangling link is neither a file nor a directory (other errors, e.g. ELOOP, surface)
        return self._node

    def is_dir(self, *, follow_symlinks=True):
        n = self._resolved(follow_symlinks)
        return n is not None and n.kind == "d"

    def is_file(self, *, follow_symlinks=True):
        n = self._resolved(follow_symlinks)
        return n is not None and n.kind == "f"

    def is_symlink(self):
        return self._node.kind == "l"

    def is_junction(self):
        return False

    def inode(self):
        return self._node.ino

    def stat(self, *, follow_symlinks=True):
        if self._node.kind == "l" and follow_symlinks:
            return self._fs._stat_result(self._fs._lookup(self.path))
        return self._fs._stat_result(self._node)

    def __fspath__(self):
        return self.path

    def __repr__(self):
        return "<SimDirEntry %r>" % self.name


class SimScandir:
    def __init__(self, fs, path, entries):
        self._it = iter([SimDirEntry(fs, path, n, node) for n, node in entries])

    def __iter__(self):
        return self

    def __next__(self):
        return next(self._it)

    def close(self):
        self._it = iter(())

    def __enter__(self):
        return self

    def __exit__(self, *a):
        self.close()
        return False

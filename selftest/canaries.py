"""Canaries: small realistic defects applied by monkeypatch on top of the imported code under test in a
side batch of every check run.  An oracle that has gone blind shows up as a canary that is no longer
detected (reported in evidence; canaries never change the exit code)."""


class Canary:
    name = "?"
    prop = "C18"

    def apply(self, world):
        raise NotImplementedError

    def revert(self, world):
        for obj, attr, val in reversed(self._saved):
            setattr(obj, attr, val)

    def _set(self, obj, attr, val):
        if not hasattr(self, "_saved"):
            self._saved = []
        self._saved.append((obj, attr, getattr(obj, attr)))
        setattr(obj, attr, val)


class NoTouchOnHit(Canary):
    name = "no_touch_on_hit"
    prop = "C18"

    def apply(self, world):
        self._saved = []
        self._set(world.co.FileCache, "_get_from_cache", lambda self, _hash: self._entries[_hash])


class EvictionIgnoresKeep(Canary):
    name = "current_request_not_protected"
    prop = "C18"

    def apply(self, world):
        self._saved = []
        orig = world.co.FileCache._cache_eviction
        self._set(world.co.FileCache, "_cache_eviction", lambda self, keep=None: orig(self))


class HashIgnoresComment(Canary):
    name = "hash_ignores_comment"
    prop = "C18"

    def apply(self, world):
        self._saved = []
        orig = world.co._hashname
        self._set(world.co, "_hashname", lambda s: orig(s.split("<<")[0]))


class NamesFromSaltedHash(Canary):
    """file names from the builtin hash() of the uri: stable inside one process, different in the next one.  Detected only
    while the simulator owns the per-process salt (builtins.hash seam) and counts a reopen as a new process."""
    name = "names_from_process_salted_hash"
    prop = "C18"

    def apply(self, world):
        self._saved = []
        self._set(world.co, "_hashname", lambda s: format(hash(s) & 0xFFFFFFFFFFFFFFFF, "016x"))


class ToleranceInverted(Canary):
    name = "missing_file_tolerance_inverted"
    prop = "C19"

    def apply(self, world):
        self._saved = []
        orig = world.co.FileCache.get_cache_misses

        def wrapped(self, uris, directives):
            out = orig(self, uris, directives)
            for cm in out:
                cm.allow_for_missing_files = not cm.allow_for_missing_files
            return out

        self._set(world.co.FileCache, "get_cache_misses", wrapped)


class ValidatorIgnored(Canary):
    name = "validator_verdict_ignored"
    prop = "C19"

    def apply(self, world):
        self._saved = []
        orig = world.co.FileCache.set_directive_function

        def wrapped(self, directive, name, function):
            if directive == "validate":
                def always(path, _f=function):
                    try:
                        _f(path)
                    except IOError:
                        pass
                    return True
                return orig(self, directive, name, always)
            return orig(self, directive, name, function)

        self._set(world.co.FileCache, "set_directive_function", wrapped)


class FailuresSwallowed(Canary):
    name = "download_failures_registered"
    prop = "C19"

    def apply(self, world):
        self._saved = []
        orig = world.co._download_from_resources

        def wrapped(cache_misses, *a, **kw):
            try:
                out = orig(cache_misses, *a, **kw)
            except Exception:
                return [True] * len(cache_misses)
            return [True] * len(out)

        self._set(world.co, "_download_from_resources", wrapped)


ALL = [NoTouchOnHit, EvictionIgnoresKeep, HashIgnoresComment, NamesFromSaltedHash, ToleranceInverted, ValidatorIgnored, FailuresSwallowed]


def for_property(prop):
    return [c for c in ALL if c.prop == prop]


def by_name(name):
    for c in ALL:
        if c.name == name:
            return c
    raise KeyError(name)

#!/venv/bin/python
"""Differential test SimFS <-> host file system.

A seeded program of file-system primitives (the ones the file cache, shutil, pathlib and plausible
fixes use) is executed twice through the ordinary Python API: once under a host temporary directory,
once under /SIMFS through the interposed seam.  The per-step outcomes (return values, exception type
and errno) and the final trees (names, kinds, sizes, bytes) must be identical.  Time stamps are
excluded (the simulator owns the clock) except for relations set explicitly by utime.

  selftest/fidelity_fs.py [--programs N] [--seed S]     exit 0 = identical, 1 = mismatch
"""
import argparse
import json
import os
import random
import shutil
import sys
import tempfile
from pathlib import Path

HERE = os.path.dirname(os.path.dirname(os.path.abspath(__file__)))
sys.path.insert(0, HERE)

from sim import interpose  # noqa: E402
from sim.clock import SimClock  # noqa: E402
from sim.simfs import SimFS  # noqa: E402

NAMES = ["a", "b", "c", "d/x", "d/y", "d", "e"]


def gen_program(rng, n):
    prog = []
    for _ in range(n):
        k = rng.choice(["write", "write", "append", "read", "rplus", "xcreate", "remove", "rename", "replace", "mkdir",
                        "rmdir", "listdir", "stat", "exists", "utime", "oswrite", "copyfile", "touch", "walk", "makedirs",
                        "truncate", "seekwrite", "unlink_open", "readinto_big", "textio", "wplus", "link", "getsize",
                        "symlink", "symlink", "symlink_abs", "readlink", "lstat", "realpath", "utime_nofollow", "scan",
                        "dirfsync", "filefsync", "sendfile"])
        a, b = rng.choice(NAMES), rng.choice(NAMES)
        prog.append((k, a, b, rng.randint(0, 20000), rng.randint(0, 255)))
    return prog


def outcome(fn):
    try:
        return ("ok", fn())
    except OSError as e:
        return ("err", type(e).__name__, e.errno)
    except (ValueError, io_unsupported()) as e:
        return ("err", type(e).__name__, None)


def io_unsupported():
    import io
    return io.UnsupportedOperation


def run_program(root, prog):
    trace = []
    j = os.path.join

    for (k, a, b, n, byte) in prog:
        pa, pb = j(root, a), j(root, b)
        data = bytes([byte]) * n

        def step():
            if k == "write":
                with open(pa, "wb") as f:
                    return f.write(data)
            if k == "append":
                with open(pa, "ab") as f:
                    f.write(data[:100])
                    return f.tell()
            if k == "read":
                with open(pa, "rb") as f:
                    d = f.read()
                    return (len(d), d[:8], d[-8:])
            if k == "rplus":
                with open(pa, "r+b") as f:
                    f.seek(n % 50)
                    f.write(b"ZZ")
                    f.seek(0)
                    return f.read(10)
            if k == "wplus":
                with open(pa, "w+b") as f:
                    f.write(data[:300])
                    f.seek(0)
                    return len(f.read())
            if k == "xcreate":
                with open(pa, "xb") as f:
                    return f.write(b"new")
            if k == "sendfile":
                # sendfile(2) from an offset of one file to the start of another (what shutil.copyfile does on Linux)
                with open(pa, "rb") as fi:
                    with open(pb, "wb") as fo:
                        sent = os.sendfile(fo.fileno(), fi.fileno(), n % 64, 1 << 20)
                        sent2 = os.sendfile(fo.fileno(), fi.fileno(), None, 7)
                        return (sent, sent2, os.fstat(fo.fileno()).st_size)
            if k == "remove":
                return os.remove(pa)
            if k == "rename":
                return os.rename(pa, pb)
            if k == "replace":
                return os.replace(pa, pb)
            if k == "link":
                return os.link(pa, pb)
            if k == "symlink":
                # a relative link text (relative to the directory holding the link), possibly dangling
                return os.symlink(os.path.relpath(pb, os.path.dirname(pa)), pa)
            if k == "symlink_abs":
                return os.symlink(pb, pa)
            if k == "readlink":
                t = os.readlink(pa)
                return os.path.relpath(t, root) if t.startswith("/") else t
            if k == "lstat":
                st = os.lstat(pa)
                import stat as S
                return (S.S_ISDIR(st.st_mode), S.S_ISREG(st.st_mode), S.S_ISLNK(st.st_mode),
                        st.st_size if S.S_ISREG(st.st_mode) else -1)
            if k == "realpath":
                return os.path.relpath(os.path.realpath(pa), os.path.realpath(root))
            if k == "utime_nofollow":
                os.utime(pa, (1000 + n, 2000 + n), follow_symlinks=False)
                st = os.lstat(pa)
                return (int(st.st_atime), int(st.st_mtime))
            if k == "scan":
                d = pa if os.path.isdir(pa) else root
                def q(fn):
                    try:
                        return fn()
                    except OSError as ex:
                        return "errno%d" % ex.errno
                with os.scandir(d) as it:
                    # (per entry, so that the listing order - unspecified on the host - does not decide which
                    # entry's error surfaces first)
                    return sorted((e.name, q(e.is_dir), q(e.is_file), e.is_symlink(), e.is_dir(follow_symlinks=False),
                                   e.is_file(follow_symlinks=False)) for e in it)
            if k == "dirfsync":
                fd = os.open(pa, os.O_RDONLY)
                try:
                    os.fsync(fd)
                    import stat as S
                    return S.S_ISDIR(os.fstat(fd).st_mode)
                finally:
                    os.close(fd)
            if k == "filefsync":
                with open(pa, "ab") as f:
                    f.write(b"!")
                    f.flush()
                    os.fsync(f.fileno())
                    return os.fstat(f.fileno()).st_size
            if k == "mkdir":
                return os.mkdir(pa)
            if k == "rmdir":
                return os.rmdir(pa)
            if k == "listdir":
                return sorted(os.listdir(pa))
            if k == "stat":
                st = os.stat(pa)
                import stat as S
                return (S.S_ISDIR(st.st_mode), S.S_ISREG(st.st_mode), st.st_size if S.S_ISREG(st.st_mode) else -1)
            if k == "getsize":
                return os.path.getsize(pa) if os.path.isfile(pa) else -1
            if k == "exists":
                return (os.path.exists(pa), os.path.isdir(pa), os.path.isfile(pa), os.path.islink(pa))
            if k == "utime":
                os.utime(pa, (1000 + n, 2000 + n))
                st = os.stat(pa)
                return (int(st.st_atime), int(st.st_mtime), os.path.getmtime(pa) == float(2000 + n))
            if k == "oswrite":
                fd = os.open(pa, os.O_CREAT | os.O_WRONLY | (os.O_TRUNC if n % 2 else 0) | (os.O_EXCL if n % 5 == 0 else 0), 0o644)
                try:
                    w = os.write(fd, data[:50])
                    sz = os.fstat(fd).st_size
                finally:
                    os.close(fd)
                return (w, sz)
            if k == "copyfile":
                shutil.copyfile(pa, pb)
                return os.path.getsize(pb)
            if k == "touch":
                Path(pa).touch()
                return os.path.getsize(pa)
            if k == "walk":
                out = []
                for p, dirs, files in os.walk(root):
                    dirs.sort()
                    out.append((os.path.relpath(p, root), sorted(dirs), sorted(files)))
                return out
            if k == "makedirs":
                os.makedirs(pa, exist_ok=(n % 2 == 0))
                return os.path.isdir(pa)
            if k == "truncate":
                os.truncate(pa, n % 3000)
                return os.path.getsize(pa)
            if k == "seekwrite":
                with open(pa, "r+b") as f:
                    f.seek(0, 2)
                    f.seek(n % 500, 1)
                    f.write(b"tail")
                return os.path.getsize(pa)
            if k == "unlink_open":
                with open(pa, "rb") as f:
                    os.remove(pa)
                    d = f.read()
                    return (len(d), os.path.exists(pa))
            if k == "readinto_big":
                with open(pa, "rb", buffering=0) as f:
                    buf = bytearray(70000)
                    got = f.readinto(buf)
                    return got
            if k == "textio":
                with open(pa, "wt") as f:
                    f.write("line1\nline2 %d\n" % n)
                with open(pa, "rt") as f:
                    return f.readlines()
            raise AssertionError(k)

        trace.append((k, a, b) + outcome(step))
    return trace


def tree(root):
    out = []
    for p, dirs, files in os.walk(root):
        dirs.sort()
        rel = os.path.relpath(p, root)
        out.append((rel, "d", 0, b""))
        for f in sorted(files):
            fp = os.path.join(p, f)
            if os.path.islink(fp):
                t = os.readlink(fp)
                out.append((os.path.join(rel, f), "l", 0, (os.path.relpath(t, root) if t.startswith("/") else t).encode()))
                continue
            with open(fp, "rb") as fh:
                d = fh.read()
            out.append((os.path.join(rel, f), "f", len(d), d))
        for dn in dirs:
            fp = os.path.join(p, dn)
            if os.path.islink(fp):
                t = os.readlink(fp)
                out.append((os.path.join(rel, dn), "l", 0, (os.path.relpath(t, root) if t.startswith("/") else t).encode()))
    return out


def one(seed, length):
    rng = random.Random(seed)
    prog = gen_program(rng, length)
    top = tempfile.mkdtemp(prefix="osu_fid_")
    # (two levels down: a relative link text such as "../e" moved to another directory may name a place above the
    # program's root - that must stay inside this program's own scratch directory)
    host = os.path.join(top, "p", "q")
    os.makedirs(host)
    try:
        t_host = run_program(host, prog)
        tree_host = tree(host)
    finally:
        shutil.rmtree(top, ignore_errors=True)
    clock = SimClock("fine", 1)
    fs = SimFS(clock)

    class Tick:
        def __call__(self, kind, path="", n=0, mut=False):
            clock.advance(1000)
            return None

        def owner(self):
            return None

    fs.hook = Tick()
    fs.h_mkdirs("/SIMFS/t/p/q")
    interpose.bind(fs, None, clock)
    try:
        t_sim = run_program("/SIMFS/t/p/q", prog)
        tree_sim = tree("/SIMFS/t/p/q")
    finally:
        interpose.unbind()
    diffs = []
    for i, (h, s) in enumerate(zip(t_host, t_sim)):
        if h != s:
            diffs.append({"step": i, "host": repr(h)[:300], "sim": repr(s)[:300]})
            break
    if not diffs and tree_host != tree_sim:
        diffs.append({"step": "final tree", "host": repr([(a, b, c) for a, b, c, _ in tree_host])[:600],
                      "sim": repr([(a, b, c) for a, b, c, _ in tree_sim])[:600]})
    return len(prog), diffs


def holes_program(root, seed):
    """sparse files: st_blocks after writes separated by seeks, a truncate that extends, writes into a hole, a cut"""
    rng = random.Random(seed)
    p = os.path.join(root, "sparse.bin")
    out = []

    def blocks():
        st = os.stat(p)
        return (st.st_size, st.st_blocks)
    with open(p, "wb") as f:
        f.write(b"x" * rng.choice([1, 1000, 4096, 5000]))
        f.seek(rng.choice([4096, 40000, 65536, 70001]), 1)
        f.write(b"y" * rng.choice([1, 1000, 4097]))
    out.append(blocks())
    with open(p, "r+b") as f:
        f.truncate(rng.choice([100000, 131072, 200001]))
    out.append(blocks())
    with open(p, "r+b") as f:
        f.seek(rng.choice([20000, 50000, 90000]))
        f.write(b"z" * rng.choice([1, 4096, 9000]))
    out.append(blocks())
    with open(p, "r+b") as f:
        f.truncate(rng.choice([10, 30000, 60000]))
    out.append(blocks())
    with open(p, "wb") as f:
        f.write(b"w" * 5000)
    out.append(blocks())
    return out


def holes(seed, n=12):
    """SimFS's block-allocation model against the host, where the host's temporary directory supports holes"""
    res = {"programs": 0, "mismatches": 0, "skipped": False, "first": None}
    for i in range(n):
        top = tempfile.mkdtemp(prefix="osu_fid_")
        try:
            h = holes_program(top, seed + i)
        finally:
            shutil.rmtree(top, ignore_errors=True)
        if h[0][1] * 512 >= h[0][0] and h[0][0] > 16384:
            res["skipped"] = True  # this file system stores the zero run: nothing to compare against
            return res
        clock = SimClock("fine", 1)
        fs = SimFS(clock)

        class Tick:
            def __call__(self, kind, path="", n=0, mut=False):
                clock.advance(1000)
                return None

            def owner(self):
                return None
        fs.hook = Tick()
        fs.h_mkdirs("/SIMFS/t")
        interpose.bind(fs, None, clock)
        try:
            s_ = holes_program("/SIMFS/t", seed + i)
        finally:
            interpose.unbind()
        res["programs"] += 1
        if h != s_:
            res["mismatches"] += 1
            res["first"] = res["first"] or {"seed": seed + i, "host": h, "sim": s_}
    return res


def main():
    ap = argparse.ArgumentParser()
    ap.add_argument("--programs", type=int, default=150)
    ap.add_argument("--length", type=int, default=40)
    ap.add_argument("--seed", type=int, default=1)
    args = ap.parse_args()
    steps = 0
    bad = []
    for i in range(args.programs):
        n, diffs = one(args.seed * 100000 + i, args.length)
        steps += n
        if diffs:
            bad.append({"seed": args.seed * 100000 + i, "diff": diffs[0]})
    hl = holes(args.seed * 1000)
    print(json.dumps({"programs": args.programs, "steps": steps, "mismatches": len(bad) + hl["mismatches"], "first": bad[:3],
                      "sparse_files": hl}))
    return 1 if (bad or hl["mismatches"]) else 0


if __name__ == "__main__":
    sys.exit(main())

#!/venv/bin/python
"""MANIFEST.setup_cmd: nothing to build (pure stdlib Python); verify that the pieces import and that
the code under test is the working tree in /repo."""
import os, sys
HERE = os.path.dirname(os.path.dirname(os.path.abspath(__file__)))
sys.path.insert(0, HERE)
from checks import runner
print("code under test:", runner.assert_code_under_test())
import sim.simfs, sim.sched, sim.simpool, sim.interpose, sim.world, model.oracle, gen.workload, checks.shrink, checks.sweep  # noqa
print("setup ok")

#!/venv/bin/python
"""Differential test SimPool <-> multiprocessing.pool.ThreadPool (CPython's real one).

Each scenario is a function of an abstract environment (make a pool, set/wait a named flag, note an
event) and is executed once with the real ThreadPool + threading.Event and once with SimPool under
the baton scheduler.  Scenarios force their interleavings with flags, never with sleeps, and only
compare outcomes that the real pool guarantees (result order, which exception reaches the consumer,
that a raising item fails its whole chunk, that terminate() drops queued tasks but lets tasks in
flight run on).

exit 0 = same outcomes, 1 = mismatch
"""
import json
import os
import sys
import threading
import time

HERE = os.path.dirname(os.path.dirname(os.path.abspath(__file__)))
sys.path.insert(0, HERE)

from multiprocessing.pool import ThreadPool  # noqa: E402

import queue  # noqa: E402

from sim import simpool, simsync  # noqa: E402
from sim.clock import SimClock, EPOCH0  # noqa: E402
from sim.sched import Sched  # noqa: E402


class _RealSync:
    Lock, RLock, Event, Condition = threading.Lock, threading.RLock, threading.Event, threading.Condition
    Semaphore, Queue, Thread = threading.Semaphore, queue.Queue, threading.Thread


class _SimSync:
    Lock, RLock, Event, Condition = simsync.SimLock, simsync.SimRLock, simsync.SimEvent, simsync.SimCondition
    Semaphore, Queue, Thread = simsync.SimSemaphore, simsync.SimQueue, simpool.SimThread


class RealEnv:
    name = "real"
    sync = _RealSync

    def __init__(self):
        self.flags = {}
        self.lock = threading.Lock()
        self.notes = []

    def pool(self, n):
        return ThreadPool(processes=n)

    def _ev(self, name):
        with self.lock:
            return self.flags.setdefault(name, threading.Event())

    def set(self, name):
        self._ev(name).set()

    def wait(self, name):
        if not self._ev(name).wait(20):
            raise RuntimeError("real scenario timed out waiting for %s" % name)

    def note(self, x):
        with self.lock:
            self.notes.append(x)

    def settle(self):
        time.sleep(0.15)


class SimEnv:
    name = "sim"

    sync = _SimSync

    def __init__(self):
        self.sched = Sched()
        self.sched.clock = SimClock("fine", 1, EPOCH0)
        self.sched.attach_client()
        simpool.bind(self.sched)
        self.flags = set()
        self.notes = []

    def pool(self, n):
        return simpool.SimPool(processes=n)

    def set(self, name):
        self.flags.add(name)
        self.sched("flag.set", name)

    def wait(self, name):
        self.sched.wait(lambda: name in self.flags, "flag.wait")

    def note(self, x):
        self.notes.append(x)

    def settle(self):
        self.sched.drain()

    def close(self):
        self.sched.drain()
        self.sched.detach_client()
        simpool.unbind()


class Boom(Exception):
    pass


# ------------------------------------------------------------------ scenarios
def sc_order(env):
    out = {}
    for cs in (1, 2, 5, 7):
        with env.pool(10) as p:
            out[cs] = list(p.imap(lambda x: x * x, range(12), chunksize=cs))
    return out


def sc_chunk_failure(env):
    """item 2 of chunk 0 raises: the consumer gets the exception at chunk 0 (no item of chunk 0 is
    delivered); items 3,4 of chunk 0 never run."""
    ran = []

    def f(x):
        ran.append(x)
        if x == 2:
            raise Boom("item 2")
        return x

    got = []
    exc = None
    with env.pool(10) as p:
        try:
            for v in p.imap(f, range(5), chunksize=5):
                got.append(v)
        except Boom as e:
            exc = str(e)
    env.settle()
    return {"got": got, "exc": exc, "ran": sorted(ran)}


def sc_second_chunk_fails(env):
    """chunk 1 fails: the items of chunk 0 are delivered first, then the exception."""
    def f(x):
        if x == 6:
            raise Boom("item 6")
        return x

    got = []
    exc = None
    with env.pool(10) as p:
        try:
            for v in p.imap(f, range(12), chunksize=5):
                got.append(v)
        except Boom as e:
            exc = str(e)
    return {"got": got, "exc": exc}


def sc_zombie(env):
    """chunk 0 raises while chunk 1 is mid-flight (forced by flags).  After the `with` block (terminate)
    the worker of chunk 1 must still run the rest of its chunk: nobody stops or joins it."""
    ran = []

    def f(x):
        if x == 0:
            env.wait("c1_started")
            raise Boom("item 0")
        if x == 5:
            env.set("c1_started")
            env.wait("released")
        ran.append(x)
        return x

    exc = None
    with env.pool(2) as p:
        try:
            list(p.imap(f, range(10), chunksize=5))
        except Boom as e:
            exc = str(e)
    after_exit = sorted(ran)
    env.set("released")
    env.settle()
    return {"exc": exc, "ran_at_exit": after_exit, "ran_finally": sorted(ran)}


def sc_terminate_drops_queued(env):
    """one worker, task A in flight (held by a flag), B and C queued: terminate() drops B and C, A finishes."""
    ran = []

    def a():
        env.set("a_started")
        env.wait("go")
        ran.append("A")

    p = env.pool(1)
    p.apply_async(a)
    p.apply_async(lambda: ran.append("B"))
    p.apply_async(lambda: ran.append("C"))
    env.wait("a_started")
    p.terminate()
    env.set("go")
    env.settle()
    return {"ran": ran}


def sc_map_error(env):
    def f(x):
        if x == 3:
            raise Boom("item 3")
        return x

    exc = None
    with env.pool(4) as p:
        try:
            p.map(f, range(8), chunksize=2)
        except Boom as e:
            exc = str(e)
    return {"exc": exc}


def sc_apply_async(env):
    with env.pool(3) as p:
        r = p.apply_async(lambda a, b: a + b, (2, 3))
        v = r.get()
        r2 = p.apply_async(lambda: 1 / 0)
        try:
            r2.get()
            e = None
        except ZeroDivisionError:
            e = "zde"
    return {"v": v, "e": e}


def sc_close_join(env):
    ran = []
    p = env.pool(3)
    it = p.imap(lambda x: ran.append(x) or x, range(7), chunksize=2)
    p.close()
    p.join()
    return {"ran": sorted(ran), "res": list(it)}


def sc_imap_unordered(env):
    """chunk 0 is held back until chunk 1 has completed: chunk 1's items come first."""
    def f(x):
        if x == 0:
            env.wait("c1_done")
        if x == 3:
            pass
        return x

    out = []
    with env.pool(2) as p:
        it = p.imap_unordered(f, range(4), chunksize=2)
        first = next(it)
        out.append(first)
        out.append(next(it))
        env.set("c1_done")
        out.extend(list(it))
    return {"out": out}


# --- threading / queue primitives (sim.simsync) against the real ones -------------------------------
def sc_lock_contention(env):
    S = env.sync
    lock, out = S.Lock(), []

    def t1():
        with lock:
            env.set("held")
            env.wait("go")
        env.set("released")

    def t2():
        env.wait("held")
        out.append(("try", lock.acquire(False)))
        env.set("go")
        out.append(("block", lock.acquire()))
        out.append(("locked", lock.locked()))
        lock.release()

    ts = [S.Thread(target=t1), S.Thread(target=t2)]
    [t.start() for t in ts]
    [t.join() for t in ts]
    return {"out": out, "locked_after": lock.locked()}


def sc_rlock_reentrant(env):
    S = env.sync
    lock, out = S.RLock(), []

    def t1():
        with lock:
            with lock:
                env.set("held2")
                env.wait("tried")
            out.append("inner released")
            env.set("half")
            env.wait("tried2")

    def t2():
        env.wait("held2")
        out.append(("try", lock.acquire(False)))
        env.set("tried")
        env.wait("half")
        out.append(("try2", lock.acquire(False)))
        env.set("tried2")
        out.append(("block", lock.acquire(True)))
        lock.release()

    ts = [S.Thread(target=t1), S.Thread(target=t2)]
    [t.start() for t in ts]
    [t.join() for t in ts]
    return {"out": out}


def sc_event_timeout(env):
    S = env.sync
    ev, out = S.Event(), []
    out.append(ev.wait(0.05))  # nobody sets it: time passes (the simulated clock jumps), False
    out.append(ev.is_set())

    def setter():
        env.wait("waiting")
        ev.set()

    t = S.Thread(target=setter)
    t.start()
    env.set("waiting")
    out.append(ev.wait(30))
    out.append(ev.wait())
    t.join()
    ev.clear()
    out.append(ev.is_set())
    return {"out": out}


def sc_queue_producer_consumer(env):
    S = env.sync
    q, out = S.Queue(maxsize=2), []

    def consumer():
        for _ in range(5):
            out.append(q.get())
            q.task_done()
        try:
            q.get(timeout=0.05)
        except queue.Empty:
            out.append("empty")
        try:
            q.get_nowait()
        except queue.Empty:
            out.append("empty-nowait")

    t = S.Thread(target=consumer)
    t.start()
    for i in range(5):
        q.put(i)  # blocks while two items are queued
    q.join()
    t.join()
    q.put("a")
    q.put("b")
    try:
        q.put("c", timeout=0.05)
    except queue.Full:
        out.append("full")
    return {"out": out, "size": q.qsize()}


def sc_condition(env):
    S = env.sync
    cond, box, out = S.Condition(), [], []

    def waiter():
        with cond:
            out.append(("first", cond.wait(0.05)))  # never notified: times out
            env.set("ready")
            out.append(("wait_for", cond.wait_for(lambda: bool(box), 30)))
            out.append(("box", list(box)))

    def notifier():
        env.wait("ready")
        with cond:
            box.append(1)
            cond.notify_all()

    ts = [S.Thread(target=waiter), S.Thread(target=notifier)]
    [t.start() for t in ts]
    [t.join() for t in ts]
    return {"out": out}


def sc_semaphore(env):
    S = env.sync
    sem, out = S.Semaphore(2), []
    out.append(sem.acquire())
    out.append(sem.acquire())
    out.append(sem.acquire(False))
    out.append(sem.acquire(timeout=0.05))

    def rel():
        env.wait("blocked")
        sem.release()

    t = S.Thread(target=rel)
    t.start()
    env.set("blocked")
    out.append(sem.acquire())
    t.join()
    return {"out": out}


SCENARIOS = [sc_lock_contention, sc_rlock_reentrant, sc_event_timeout, sc_queue_producer_consumer, sc_condition, sc_semaphore,
             sc_order, sc_chunk_failure, sc_second_chunk_fails, sc_zombie, sc_terminate_drops_queued, sc_map_error, sc_apply_async, sc_close_join,
             sc_imap_unordered]


def main():
    bad = []
    for sc in SCENARIOS:
        real = sc(RealEnv())
        env = SimEnv()
        try:
            sim = sc(env)
        finally:
            env.close()
        if real != sim:
            bad.append({"scenario": sc.__name__, "real": repr(real)[:400], "sim": repr(sim)[:400]})
    print(json.dumps({"scenarios": len(SCENARIOS), "mismatches": len(bad), "detail": bad}))
    return 1 if bad else 0


if __name__ == "__main__":
    sys.exit(main())

#!/venv/bin/python
"""Entry point of the C18 / C19 checks.

  checks/run.py --property C18|C19 --tier quick|thorough
  checks/run.py --replay <file>
  checks/run.py --digests C18 <seed> <seed> ...      (internal: determinism self-test)

exit 0: the property held on everything explored (known findings are printed, not alarms)
exit 1: VIOLATION property=<id> replay=<path>
exit 2: harness problem (non-determinism, deadlock, step cap, worker death, stub infidelity)
"""
import argparse
import json
import os
import re
import subprocess
import sys
import time

HERE = os.path.dirname(os.path.dirname(os.path.abspath(__file__)))
if HERE not in sys.path:
    sys.path.insert(0, HERE)

if os.environ.get("PYTHONHASHSEED") is None and __name__ == "__main__":
    # hash randomisation must not matter (the determinism self-test uses a different value on purpose),
    # but pin it so that a report names one exact execution
    os.environ["PYTHONHASHSEED"] = "0"
    os.execv(sys.executable, [sys.executable] + sys.argv)

from checks import runner  # noqa: E402
from checks.runner import Agg, chunked, run_parallel, run_record  # noqa: E402
from checks.shrink import Shrinker  # noqa: E402
from gen.workload import generate  # noqa: E402

DEFAULT_SEED = 20260928
REPLAY_DIR = os.environ.get("VERIF_REPLAY_DIR") or os.path.join(HERE, "replays")
EVIDENCE_DIR = os.path.join(HERE, "evidence")
KNOWN = os.path.join(HERE, "known_findings.json")

REAL_VS_STUB = {
    "real": ["ocean_science_utilities.filecache.cache_object (FileCache, FileCacheConfig, _download_from_resources, parse_directive(s))",
             "ocean_science_utilities.filecache.filecache (module-level named caches)",
             "ocean_science_utilities.filecache.remote_resources (RemoteResource, RemoteResourceLocal, RemoteResourceHTTPS)",
             "stdlib: os.path, os.walk, os.makedirs, shutil.copyfile/copyfileobj, pathlib, json, io.BufferedReader/Writer/TextIOWrapper, hashlib"],
    "stub": ["file system below os.*/open (SimFS, in-memory POSIX model)", "clock and file timestamps (SimClock)",
             "multiprocessing.pool.ThreadPool (SimPool: workers are scheduler actors)", "requests.api.get (SimNet response objects)",
             "object store behind sim:// (user-style RemoteResource subclass)", "tqdm (pass-through)",
             "post-processor / validator callbacks (test doubles with fault points)"],
}


def seed_for(base, i):
    return base * 1_000_000 + i


# --------------------------------------------------------------------- replay
def evaluate_record(rec):
    """-> (clause or None, world, violation tuple or None)"""
    w = run_record(rec, keep_log=True)
    if w.harness:
        return None, w, None
    if w.violation:
        return w.violation[1], w, w.violation
    if rec.get("check") == "modes":
        v, w2 = runner.mode_equivalence(rec, w, keep_log=True)
        if v:
            return v["clause"], w2, ("C18", v["clause"], v["msg"], v["op"])
    return None, w, None


def write_replay(prop, viol, rec, world, shrunk_from=None, calls=0):
    os.makedirs(REPLAY_DIR, exist_ok=True)
    clause = viol[1]
    name = "%s-%s-%s.json" % (prop, re.sub(r"[^0-9A-Za-z]+", "_", clause), rec["seed"])
    path = os.path.join(REPLAY_DIR, name)
    trace = [list(e) for e in (world.sched.log or [])]
    doc = {
        "format": "osu-dst-replay-1",
        "property": prop, "clause": clause, "message": viol[2], "failing_op": viol[3],
        "digest": world.digest(),
        "record": rec,
        "schedule_choices_taken": world.director.choices_rec,
        "context_switches": world.sched.switches,
        "minimised": {"from_ops": shrunk_from, "to_ops": len(rec["ops"]), "faults": len(rec.get("faults") or []),
                      "crash": bool(rec.get("crash")), "shrink_executions": calls},
        "trace_tail": trace[-120:],
        "how_to_replay": "/venv/bin/python checks/run.py --replay " + path,
    }
    if sys.flags.optimize:
        # found in the stage that runs the simulation in an interpreter started with -O (asserts stripped from the code
        # under test): --replay re-executes itself that way
        doc["interpreter"] = {"optimize": int(sys.flags.optimize)}
    with open(path, "w") as f:
        json.dump(doc, f, indent=1, default=str)
        f.write("\n")
    return path


def do_replay(path, quiet=False):
    doc = json.load(open(path))
    if (doc.get("interpreter") or {}).get("optimize") and not sys.flags.optimize:
        os.execv(sys.executable, [sys.executable, "-O"] + sys.argv)
    rec = doc["record"]
    clause, w, viol = evaluate_record(rec)
    if w.harness:
        print("HARNESS: %s" % w.harness)
        return 2
    if clause is None:
        if not quiet:
            print("replay of %s: no violation (the property holds on this history now)" % path)
        return 0
    dig = w.digest()
    same = dig == doc.get("digest") and clause == doc.get("clause")
    print("replay of %s: clause=%s op=%s\n  %s\n  digest %s (%s)" % (path, clause, viol[3], viol[2], dig[:16],
                                                                     "identical to the recorded run" if same else "DIFFERENT from the recorded run"))
    if not quiet:
        print("VIOLATION property=%s replay=%s" % (doc["property"], path))
    return 1


def shrink_and_report(prop, v, profile):
    rec = v.get("record") or generate(prop, v["seed"], profile)
    if v.get("tag") == "modes":
        rec["check"] = "modes"
    clause = v["clause"]

    def ev(r):
        c, w, viol = evaluate_record(r)
        return c
    n0 = len(rec["ops"])
    if ev(rec) != clause:
        return None, "the violation (%s, seed %s) did not reproduce from its record" % (clause, v["seed"])
    def choices(r):
        c, w, viol = evaluate_record(r)
        return w.director.choices_rec if c == clause else None
    sh = Shrinker(rec, clause, ev, budget=int(os.environ.get("VERIF_SHRINK_BUDGET", "400")), choices_of=choices)
    small = sh.run()
    c, w, viol = evaluate_record(small)
    if c != clause:
        small = rec
        c, w, viol = evaluate_record(small)
    path = write_replay(prop, viol, small, w, shrunk_from=n0, calls=sh.calls)
    # the replay file must reproduce in a fresh interpreter under another hash seed
    env = dict(os.environ, PYTHONHASHSEED="4242")
    p = subprocess.run(py_cmd() + [os.path.abspath(__file__), "--replay", path, "--quiet"], env=env,
                       capture_output=True, text=True, timeout=300)
    if p.returncode != 1 or "identical to the recorded run" not in p.stdout:
        return path, "replay in a fresh interpreter did not reproduce exactly:\n" + p.stdout + p.stderr
    return path, None


def py_cmd(optimize=None):
    """this interpreter, with asserts stripped (-O) when asked for or when it runs that way itself"""
    opt = sys.flags.optimize if optimize is None else optimize
    return [sys.executable] + (["-O"] if opt else [])


def load_known():
    if not os.path.exists(KNOWN):
        return {"known": [], "fixed": []}
    return json.load(open(KNOWN))


def match_known(known, prop, clause, msg):
    for k in known.get("known", []):
        if k["property"] == prop and k["clause"] == clause and re.search(k["match"], msg):
            return k
    return None


# ----------------------------------------------------------------- determinism
def determinism_check(prop, seeds, workers, profile):
    """Same seed twice in-process (inside forked workers) and once more in a fresh interpreter with a
    different PYTHONHASHSEED and worker count; event-log + file-system-image digests must agree."""
    t1 = run_parallel([("digests", prop, ch, {"profile": profile}) for ch in chunked(seeds, 8)], workers)
    t2 = run_parallel([("digests", prop, ch, {"profile": profile}) for ch in chunked(seeds, 5)], max(1, workers // 2))
    d1 = dict(x for ch in t1 for x in ch)
    d2 = dict(x for ch in t2 for x in ch)
    env = dict(os.environ, PYTHONHASHSEED="31337")
    p = subprocess.run([sys.executable, os.path.abspath(__file__), "--digests", prop] + [str(s) for s in seeds],
                       env=env, capture_output=True, text=True, timeout=900)
    if p.returncode != 0:
        return False, "fresh-interpreter digest run failed: " + p.stderr[-2000:]
    d3 = {int(k): v for k, v in json.loads(p.stdout.strip().splitlines()[-1]).items()}
    bad = [s for s in seeds if not (d1[s] == d2[s] == d3[s])]
    if bad:
        return False, "digests differ for seeds %s" % bad[:10]
    return True, "%d seeds x 3 executions (2 worker layouts, fresh interpreter with another PYTHONHASHSEED): identical digests" % len(seeds)


# ------------------------------------------------------------------------ main
def main():
    ap = argparse.ArgumentParser()
    ap.add_argument("--property")
    ap.add_argument("--tier", default=os.environ.get("VERIF_TIER", "quick"))
    ap.add_argument("--replay")
    ap.add_argument("--quiet", action="store_true")
    ap.add_argument("--digests", nargs="+")
    ap.add_argument("--workers", type=int, default=int(os.environ.get("VERIF_WORKERS", "0")))
    ap.add_argument("--runs", type=int, default=0)
    ap.add_argument("--no-selftests", action="store_true")
    args = ap.parse_args()

    code = runner.assert_code_under_test()
    if args.replay:
        return do_replay(args.replay, args.quiet)
    if args.digests:
        prop = args.digests[0]
        out = {}
        for s in args.digests[1:]:
            rec = generate(prop, int(s))
            out[s] = run_record(rec, keep_log=True).digest()
        print(json.dumps(out))
        return 0

    prop = args.property
    if prop not in ("C18", "C19"):
        print("unknown property %r (claimed: C18, C19)" % prop)
        return 2
    tier = args.tier if args.tier in ("quick", "thorough") else "quick"
    base = int(os.environ.get("VERIF_SEED", DEFAULT_SEED))
    workers = args.workers or min(16, os.cpu_count() or 1)
    t0 = time.time()
    print("osu-dst check property=%s tier=%s VERIF_SEED=%d workers=%d code=%s" % (prop, tier, base, workers, code))
    sys.stdout.flush()
    substage = os.environ.get("VERIF_SUBSTAGE")  # "opt": this process is the -O stage of another check run
    if substage:
        args.no_selftests = True
    budget = float(os.environ.get("VERIF_BUDGET_S", "900" if tier == "thorough" else "0"))
    n_quick = args.runs or int(os.environ.get("VERIF_RUNS", "9000"))
    n_sweep = 56 if tier == "quick" else 0
    profile = None
    agg = Agg()
    harness_problems = []
    notes = {}

    # 1. determinism self-test ------------------------------------------------
    if not args.no_selftests:
        nd = 48 if tier == "quick" else 400
        dseeds = [seed_for(base, 900_000 + i) for i in range(nd)]
        ok, msg = determinism_check(prop, dseeds, workers, profile)
        notes["determinism"] = msg
        print("determinism: " + msg)
        if not ok:
            harness_problems.append("determinism: " + msg)

        for script, extra in (("fidelity_fs.py", ["--programs", "60" if tier == "quick" else "600", "--seed", str(base % 1000)]),
                              ("fidelity_pool.py", [])):
            try:
                p = subprocess.run([sys.executable, os.path.join(HERE, "selftest", script)] + extra, capture_output=True,
                                   text=True, timeout=600)
                line = p.stdout.strip().splitlines()[-1] if p.stdout.strip() else p.stderr[-500:]
                notes["stub_" + script[:-3]] = json.loads(line) if p.returncode in (0, 1) and line.startswith("{") else line
                if p.returncode != 0:
                    harness_problems.append("stub fidelity %s: %s" % (script, line[:500]))
            except Exception as e:
                harness_problems.append("stub fidelity %s could not run: %r" % (script, e))
        print("stub fidelity: " + json.dumps({k: v for k, v in notes.items() if k.startswith("stub_")})[:300])
        # canaries: the oracle must still see small seeded defects
        from selftest import canaries
        det = {}
        ncan = 600 if tier == "quick" else 3000
        for cls in canaries.for_property(prop):
            cagg = Agg()
            seeds = [seed_for(base, 800_000 + i) for i in range(ncan)]
            for r in run_parallel([("canary", prop, ch, {"canary": cls.name}) for ch in chunked(seeds, 40)], workers):
                cagg.merge(r)
            det[cls.name] = {"runs": cagg.n, "violating_runs": len(cagg.violations),
                             "clauses": sorted({v["clause"] for v in cagg.violations})}
        notes["canaries"] = det
        notes["canaries_detected"] = "%d of %d" % (sum(1 for d in det.values() if d["violating_runs"]), len(det))
        print("canaries: " + json.dumps(det))

    # 2. seeded swarm -----------------------------------------------------------
    def swarm(lo, hi):
        seeds = [seed_for(base, i) for i in range(lo, hi)]
        tasks = [("seeds", prop, ch, {"modes": prop == "C18", "profile": profile}) for ch in chunked(seeds, 40)]
        for r in run_parallel(tasks, workers):
            agg.merge(r)

    def sweeps(lo, hi, opts):
        seeds = [seed_for(base, 500_000 + i) for i in range(lo, hi)]
        # every other swept history is built around big parallel requests (pool chunks, zombie workers)
        tasks = [("sweep", prop, [s], dict(opts, profile=({"big_requests": True, "parallel": True} if j % 2 else {})))
                 for j, s in enumerate(seeds)]
        for r in run_parallel(tasks, workers):
            agg.merge(r)

    def smallscope(max_len):
        from checks import sweep
        total = sweep.smallscope_size(max_len)
        tasks = [("smallscope", prop, ch, {"max_len": max_len}) for ch in chunked(range(total), 400)]
        for r in run_parallel(tasks, workers):
            agg.merge(r)
        agg.c["smallscope_histories"] += total
        notes["smallscope"] = ("every operation sequence of length <= %d over %d operations on 3 keys x %d size limits x "
                               "%d clock policies x 2 download modes: %d runs" % (max_len, len(sweep.SMALL_OPS),
                                                                                 len(sweep.SMALL_LIMITS), len(sweep.SMALL_CLOCKS), total))

    def smallscope19(max_len):
        from checks import sweep
        n = len(sweep.smallscope19_bases(max_len))
        tasks = [("smallscope19", prop, ch, {"max_len": max_len}) for ch in chunked(range(n), 6)]
        before = agg.n
        for r in run_parallel(tasks, workers):
            agg.merge(r)
        notes["smallscope"] = ("every history of length <= %d over %d operations on 4 keys (sim/file/https, post-process, validate) x "
                               "2 size limits x tolerant/strict: %d base histories, each with EVERY crash point (plus torn variants) and "
                               "EVERY applicable single fault at every download position: %d runs" % (
                                   max_len, len(sweep.SMALL19_OPS), n, agg.n - before))

    def optimized_stage(n):
        """The same seeded search in an interpreter started with -O: `assert` statements are compiled out of the code
        under test (and __debug__ is False), an ambient setting of the process like its time zone or hash salt.  A
        guard written as an assert protects nothing there (seeded change s196)."""
        out = os.path.join(REPLAY_DIR, ".optstage-%s-%d.json" % (prop, os.getpid()))
        os.makedirs(REPLAY_DIR, exist_ok=True)
        env = dict(os.environ, VERIF_SUBSTAGE="opt", VERIF_SUBSTAGE_OUT=out, VERIF_NO_EVIDENCE="1", VERIF_RUNS=str(n))
        env.pop("VERIF_STOP_EARLY", None)
        p = subprocess.run(py_cmd(1) + [os.path.abspath(__file__), "--property", prop, "--tier", "quick", "--workers", str(workers)],
                           env=env, capture_output=True, text=True, timeout=1500)
        summary = None
        if os.path.exists(out):
            summary = json.load(open(out))
            os.remove(out)
        if p.returncode not in (0, 1) or summary is None:
            harness_problems.append("stage in an interpreter started with -O failed (exit %s): %s" % (p.returncode, (p.stdout + p.stderr)[-800:]))
            return
        notes["optimized_interpreter"] = {k: summary[k] for k in ("runs", "faults_fired", "optimize_flag")}
        agg.c["optimized_interpreter_runs"] += summary["runs"]
        sub_reports.extend(summary["reported"])
        sub_known.extend(summary["known_lines"])

    sub_reports, sub_known = [], []
    try:
        if substage == "opt":
            swarm(600_000, 600_000 + n_quick)
        elif prop == "C19":
            smallscope19(2 if tier == "quick" else 3)
        if prop == "C18" and not substage:
            smallscope(3 if tier == "quick" else 4)
        if substage:
            pass
        elif tier == "quick" and os.environ.get("VERIF_STOP_EARLY"):
            # (sensitivity tooling only: the same stages in the same order, cut short at the first stage that
            # reports something - a changed tree that is caught at once need not be explored to the end)
            lo = 0
            while lo < n_quick and not agg.violations and not agg.harness:
                swarm(lo, min(n_quick, lo + 1500))
                lo += 1500
            if not agg.violations and not agg.harness:
                sweeps(0, n_sweep, {"crash_limit": 120, "fault_limit": 100})
            if not agg.violations and not agg.harness:
                optimized_stage(1500)
        elif tier == "quick":
            swarm(0, n_quick)
            sweeps(0, n_sweep, {"crash_limit": 120, "fault_limit": 100})
            optimized_stage(1500)
        else:
            optimized_stage(6000)
            done_swarm, done_sweep = 0, 0
            while True:
                swarm(done_swarm, done_swarm + 8000)
                done_swarm += 8000
                sweeps(done_sweep, done_sweep + 64, {"crash_limit": 400, "fault_limit": 300})
                done_sweep += 64
                el = time.time() - t0
                print("  ... %d runs, %d violations, %.0fs" % (agg.n, len(agg.violations), el))
                sys.stdout.flush()
                if el > budget or agg.violations or agg.harness:
                    break
    except KeyboardInterrupt:
        raise
    except BaseException as e:  # worker death, time-out, anything escaping from a worker
        harness_problems.append("batch execution failed: %r" % (e,))

    for h in agg.harness[:5]:
        harness_problems.append("seed %s %s: %s" % (h["seed"], h.get("tag", ""), h["reason"]))

    # 3. violations -> minimise, replay, match known findings ----------------------
    known = load_known()
    exit_code = 0
    reported = []
    by_clause = {}
    for v in sorted(agg.violations, key=lambda v: (v["clause"], len(json.dumps(v.get("record") or "")), v["seed"])):
        by_clause.setdefault(v["clause"], []).append(v)
    known_lines = []
    for clause, vs in sorted(by_clause.items()):
        # distinct messages inside one clause are tried too (a different violation of the same clause
        # must not hide behind a known one), up to a small number
        tried = 0
        seen_kind = set()
        for v in vs:
            kind = re.sub(r"\d+", "N", re.sub(r"cachefile_[0-9a-f]+_cachefile", "F", v["msg"]))[:80]
            if kind in seen_kind:
                continue
            seen_kind.add(kind)
            tried += 1
            if tried > 3:
                break
            k = match_known(known, prop, clause, v["msg"])
            if k is not None:
                line = "KNOWN-FINDING: property=%s %s" % (prop, k["what"])
                if line not in known_lines:
                    known_lines.append(line)
                continue
            path, err = shrink_and_report(prop, v, profile)
            if err:
                harness_problems.append(err)
                continue
            doc = json.load(open(path))
            k = match_known(known, prop, doc["clause"], doc["message"])
            if k is not None:
                line = "KNOWN-FINDING: property=%s %s" % (prop, k["what"])
                if line not in known_lines:
                    known_lines.append(line)
                continue
            print("violation: clause %s at op %s of seed %s: %s" % (doc["clause"], doc["failing_op"], v["seed"], doc["message"]))
            print("  minimised %s ops -> %d ops, %d faults%s (%d executions)" % (
                doc["minimised"]["from_ops"], doc["minimised"]["to_ops"], doc["minimised"]["faults"],
                ", 1 crash" if doc["minimised"]["crash"] else "", doc["minimised"]["shrink_executions"]))
            print("VIOLATION property=%s replay=%s" % (prop, path))
            reported.append({"clause": doc["clause"], "replay": path, "message": doc["message"]})
            exit_code = 1
    for r_ in sub_reports:
        print("violation (interpreter started with -O): clause %s: %s" % (r_["clause"], r_["message"]))
        print("VIOLATION property=%s replay=%s" % (prop, r_["replay"]))
        reported.append(r_)
        exit_code = 1
    for line in sub_known:
        if line not in known_lines:
            known_lines.append(line)
    for line in known_lines:
        print(line)
    if substage and os.environ.get("VERIF_SUBSTAGE_OUT"):
        with open(os.environ["VERIF_SUBSTAGE_OUT"], "w") as f:
            json.dump({"runs": agg.n, "faults_fired": dict(agg.fired), "optimize_flag": int(sys.flags.optimize),
                       "reported": reported, "known_lines": known_lines, "harness_problems": harness_problems}, f)

    # 4. evidence --------------------------------------------------------------------
    wall = time.time() - t0
    hours = wall / 3600.0
    ev = {
        "property_id": prop, "tier": tier, "seed": base, "level": "exploration",
        "coverage": {
            "evaluations": agg.n,
            "distinct_nontrivial": len(agg.nontrivial),
            "rule": "one evaluation = one simulated run (a generated or swept history executed against the real file cache on the simulator). "
                    "distinct = distinct 48-bit digests of (operation list, fault plan, crash point, knobs, sequence of scheduling decisions); "
                    "non-trivial = the run had at least one cache miss and at least one of {eviction, fired fault or crash, context switch between actors}",
            "samples": agg.samples or [runner.compact_sample(generate(prop, seed_for(base, 0)))],
            "runs_per_hour": int(agg.n / hours) if hours > 0 else 0,
            "seeds_per_hour": int(agg.n / hours) if hours > 0 else 0,
            "simulated_time_covered_s": agg.c["sim_ns"] / 1e9,
            "yield_points": agg.c["steps"], "context_switches": agg.c["switches"],
            "scheduling_decisions_with_2plus_runnable": agg.c["decisions"],
            "distinct_interleavings": len(agg.ilv),
            "distinct_abstract_states": len(agg.states),
            "operations": agg.c["ops"], "requests": agg.c["gets"], "hits": agg.c["hits"], "misses": agg.c["misses"],
            "evictions": agg.c["evictions"], "reopens": agg.c["reopens"],
            "additional_runs_in_an_interpreter_started_with_-O": agg.c["optimized_interpreter_runs"],
            "faults_planned": dict(agg.planned), "faults_fired": dict(agg.fired),
            "crashes": agg.c["crashes"], "torn_write_crashes": agg.c["torn_write_crashes"],
            "sweep_crash_points": agg.c["sweep_crash_points"], "sweep_fault_positions": agg.c["sweep_fault_positions"],
            "sweep_zombie_schedules": agg.c["sweep_zombie_schedules"],
            "backward_clock_steps": agg.c["backward_clock_steps"],
            "requests_with_zombie_worker_alive": agg.c["zombie_ops"],
            "runs_with_2plus_live_actors": agg.c["max_live_ge2"],
            "reach_probes": dict(agg.probes),
            "configuration_coverage": dict(agg.knob_cov),
            "real_vs_stub": REAL_VS_STUB,
            "selftests": notes,
            "violations_reported": reported, "known_findings_printed": known_lines,
            "harness_problems": harness_problems,
            "exhaustive": False,
        },
        "assumptions": [
            "the simulator's POSIX model (SimFS) and ThreadPool model (SimPool) are faithful for the calls the file cache makes (validated differentially, selftest/)",
            "crash = process death with the operating system surviving: applied writes are durable, un-flushed user-space buffers are lost; power loss is not modelled",
            "pre-emption happens at simulated I/O, network and pool events (the only accesses to state shared between actors in this code)",
            "sampling, not proof: clean means no violation in the runs counted above",
        ],
        "wall_s": round(wall, 2),
        "violations": len(reported),
    }
    if not os.environ.get("VERIF_NO_EVIDENCE"):
        os.makedirs(EVIDENCE_DIR, exist_ok=True)
        with open(os.path.join(EVIDENCE_DIR, prop + ".json"), "w") as f:
            json.dump(ev, f, indent=1, default=str)
            f.write("\n")
    print("%d simulated runs (%d distinct non-trivial), %d yield points, %d context switches, %.1fs simulated, %.1fs wall, %d runs/hour"
          % (agg.n, len(agg.nontrivial), agg.c["steps"], agg.c["switches"], agg.c["sim_ns"] / 1e9, wall, ev["coverage"]["runs_per_hour"]))
    print("faults fired: %s" % dict(agg.fired))
    if harness_problems:
        for h in harness_problems:
            print("HARNESS: " + h)
        if exit_code == 0:
            exit_code = 2
    if exit_code == 0:
        print("OK property=%s held on everything explored" % prop)
    return exit_code


if __name__ == "__main__":
    sys.exit(main())

"""Executes run records (in this process or in a pool of forked workers) and aggregates statistics."""
import collections
import faulthandler
import hashlib
import json
import os
import sys
import time

HERE = os.path.dirname(os.path.dirname(os.path.abspath(__file__)))
if HERE not in sys.path:
    sys.path.insert(0, HERE)
SRC = os.environ.get("OSU_SRC", "/repo/src")
if SRC not in sys.path:
    sys.path.insert(0, SRC)

from sim.world import World, mix  # noqa: E402
from model.oracle import Oracle  # noqa: E402
from gen.workload import generate  # noqa: E402


def assert_code_under_test():
    import ocean_science_utilities.filecache.cache_object as co
    want = os.path.realpath(SRC)
    got = os.path.realpath(co.__file__)
    if not got.startswith(want + os.sep):
        raise RuntimeError("code under test imported from %s, expected under %s" % (got, want))
    return got


def run_record(rec, keep_log=False, mut_trace=False, canary=None, oracle=True):
    w = World(rec, oracle_factory=Oracle if oracle else None, keep_log=keep_log, record_mut_trace=mut_trace,
              canary=canary)
    w.run()
    return w


def summarize(w, with_digest=False):
    rec = w.record
    s = w.sched
    out = {
        "seed": rec["seed"],
        "verdict": "harness" if w.harness else ("violation" if w.violation else "ok"),
        "steps": s.step, "switches": s.switches, "decisions": s.decisions,
        "sim_ns": w.clock.covered, "max_live": s.max_live,
    }
    if w.harness:
        out["harness"] = w.harness
    if w.violation:
        out["clause"] = w.violation[1]
        out["msg"] = w.violation[2]
        out["op"] = w.violation[3]
    if with_digest:
        out["digest"] = w.digest()
    return out


class Agg:
    """Mergeable statistics of a batch."""

    def __init__(self):
        self.n = 0
        self.c = collections.Counter()
        self.fired = collections.Counter()
        self.planned = collections.Counter()
        self.probes = collections.Counter()
        self.ilv = set()
        self.states = set()
        self.nontrivial = set()
        self.violations = []
        self.harness = []
        self.samples = []
        self.knob_cov = collections.Counter()

    def add_world(self, w, tag="", count_only=False):
        rec = w.record
        s = w.sched
        self.n += 1
        c = self.c
        c["steps"] += s.step
        c["switches"] += s.switches
        c["decisions"] += s.decisions
        c["sim_ns"] += w.clock.covered
        c["ops"] += w.stats["ops"]
        c["gets"] += w.stats["gets"]
        c["crashes"] += w.stats["crashes"]
        c["reopens"] += w.stats["reopens"]
        c["evictions"] += w.stats["evictions"]
        c["hits"] += w.stats["hits"]
        c["misses"] += w.stats["misses"]
        c["zombie_ops"] += w.stats["zombie_ops"]
        c["backward_clock_steps"] += w.clock.backward_steps
        c["torn_write_crashes"] += w.director.torn_crashes
        c["max_live_ge2"] += 1 if s.max_live >= 2 else 0
        for f in rec.get("faults", []):
            self.planned[f["kind"]] += 1
        if rec.get("crash"):
            self.planned["CRASH"] += 1
        if rec.get("crash2"):
            self.planned["CRASH"] += 1
        for k, v in w.stats["fired"].items():
            self.fired[k] += v
        if w.stats["crashes"]:
            self.fired["CRASH"] += w.stats["crashes"]
        for k, v in w.stats["probes"].items():
            self.probes[k] += v
        kn = rec["knobs"]
        self.knob_cov["clock=" + kn.get("clock", {}).get("policy", "fine")] += 1
        self.knob_cov["sched=" + (kn.get("sched") or {}).get("policy", "none")] += 1
        self.knob_cov["api=" + kn.get("api", "object")] += 1
        self.knob_cov["parallel=%s" % kn.get("parallel")] += 1
        self.knob_cov["size=" + str(kn.get("size_class"))] += 1
        self.knob_cov["atime=" + kn.get("atime", "relatime")] += 1
        # vocabulary of rounds 20-21: how many runs actually had it
        if any(k.get("ppn") or k.get("vn") for k in kn.get("keys", [])):
            self.knob_cov["several_named_directive_functions"] += 1
        for name in ("mass_eviction", "sparse_writer", "http_last_modified", "cache_dir_link", "multipart", "warnings_error",
                     "log_debug", "size_arg_int_zero", "val_ioerror_class"):
            if kn.get(name):
                self.knob_cov[name] += 1
        if kn.get("err_type") in ("warning", "userwarning"):
            self.knob_cov["faults_raise_a_Warning_subclass"] += 1
        if any(">>" in k.get("res", "") for k in kn.get("keys", [])):
            self.knob_cov["object_name_with_>>"] += 1
        if s.decisions:
            self.ilv.add(mix(tuple(s.interleave_sig)) & 0xFFFFFFFFFFFF)
        fired_total = sum(w.stats["fired"].values()) + w.stats["crashes"]
        hist_sig = mix(json.dumps(rec["ops"], sort_keys=True), json.dumps(rec.get("faults"), sort_keys=True),
                       json.dumps([rec.get("crash"), rec.get("crash2")], sort_keys=True), tuple(s.interleave_sig),
                       json.dumps(kn, sort_keys=True))
        if w.stats["misses"] >= 1 and (w.stats["evictions"] or fired_total or s.switches):
            self.nontrivial.add(hist_sig & 0xFFFFFFFFFFFF)
        for st in getattr(w, "abstract_states", ()):
            self.states.add(st)
        if count_only:
            return
        if w.harness:
            self.harness.append({"seed": rec["seed"], "tag": tag, "reason": w.harness})
        elif w.violation:
            self.violations.append({"seed": rec["seed"], "tag": tag, "clause": w.violation[1], "msg": w.violation[2],
                                    "op": w.violation[3], "record": rec if tag else None})
        if len(self.samples) < 2 and w.stats["misses"] and (w.stats["evictions"] or fired_total):
            self.samples.append(compact_sample(rec))

    def merge(self, o):
        self.n += o.n
        self.c.update(o.c)
        self.fired.update(o.fired)
        self.planned.update(o.planned)
        self.probes.update(o.probes)
        self.knob_cov.update(o.knob_cov)
        self.ilv |= o.ilv
        self.states |= o.states
        self.nontrivial |= o.nontrivial
        self.violations.extend(o.violations)
        self.harness.extend(o.harness)
        for s in o.samples:
            if len(self.samples) < 3:
                self.samples.append(s)


def compact_sample(rec):
    kn = rec["knobs"]
    return {
        "seed": rec["seed"],
        "keys": [("%s://%s%s" % (k["scheme"], k["res"], ("<<" + k["comment"]) if k["comment"] else "")
                  + ("+pp" if k["pp"] else "") + ("+val" if k["val"] else "")) for k in kn["keys"]],
        "max_bytes": kn["max_bytes"], "parallel": kn["parallel"], "clock": kn["clock"], "sched": kn["sched"],
        "ops": [{k: v for k, v in o.items() if k != "dt"} for o in rec["ops"][:20]],
        "faults": rec.get("faults"), "crash": rec.get("crash"), "crash2": rec.get("crash2"),
    }


# ------------------------------------------------------------------ worker side
def _task(args):
    kind, prop, payload, opts = args
    faulthandler.dump_traceback_later(opts.get("task_timeout", 600), exit=True)
    try:
        agg = Agg()
        if kind == "seeds":
            profile = opts.get("profile")
            for seed in payload:
                rec = generate(prop, seed, profile)
                w = run_record(rec)
                agg.add_world(w)
                if opts.get("modes") and not w.violation and not w.harness:
                    v, wb = mode_equivalence(rec, w)
                    agg.add_world(wb, count_only=True)
                    if v is not None:
                        agg.violations.append(v)
        elif kind == "records":
            for tag, rec in payload:
                w = run_record(rec)
                agg.add_world(w, tag=tag)
        elif kind == "sweep":
            from checks import sweep
            for seed in payload:
                sweep.sweep_history(prop, seed, agg, opts)
        elif kind == "smallscope":
            from checks import sweep
            for idx in payload:
                rec = sweep.smallscope_record(idx, opts.get("max_len", 3))
                w = run_record(rec)
                agg.add_world(w, tag="small#%d" % idx)
        elif kind == "smallscope19":
            from checks import sweep
            bases = sweep.smallscope19_bases(opts.get("max_len", 2))
            for idx in payload:
                sweep.sweep_base(bases[idx], 778000 + idx, agg, dict(opts, crash_limit=10**6, fault_limit=10**6))
        elif kind == "canary":
            from selftest import canaries
            cls = canaries.by_name(opts["canary"])
            for seed in payload:
                rec = generate(prop, seed, opts.get("profile"))
                w = run_record(rec, canary=cls())
                agg.add_world(w)
        elif kind == "digests":
            out = []
            for seed in payload:
                rec = generate(prop, seed, opts.get("profile"))
                w = run_record(rec, keep_log=True)
                out.append((seed, w.digest()))
            return out
        return agg
    finally:
        faulthandler.cancel_dump_traceback_later()


def mode_equivalence(rec, w_first, keep_log=False):
    """18h: the same history with the other download mode must give the same results.
    Returns (violation dict or None, world of the second run)."""
    rec2 = json.loads(json.dumps(rec))
    rec2["knobs"]["parallel"] = not rec["knobs"].get("parallel", False)
    rec2.pop("check", None)
    b = run_record(rec2, keep_log=keep_log)
    a = w_first
    if b.harness:
        return None, b
    if b.violation:
        return {"seed": rec["seed"], "tag": "", "clause": b.violation[1], "msg": b.violation[2],
                "op": b.violation[3], "record": rec2}, b
    # compare request by request; a request that ran in only one of the two executions (the other one ended
    # early, e.g. with the documented oversize error on a reopen, because completion order changed which files
    # were evicted) has nothing to be compared with
    if any(o["op"] == "RES_UPDATE" for o in rec["ops"]):
        # a remote object changed during the history: the two executions may legitimately serve different
        # (old, still cached vs. freshly fetched) versions of it, so only the paths can be compared
        strip = lambda r: [p for p, _h in r] if isinstance(r, list) else r
        a_results = [(i, strip(r)) for i, r in a.results]
        b_results = [(i, strip(r)) for i, r in b.results]
    else:
        a_results, b_results = a.results, b.results
    rb_by_id = dict((str(i), r) for i, r in b_results)
    for ida, ra in a_results:
        if str(ida) not in rb_by_id:
            continue
        idb, rb = ida, rb_by_id[str(ida)]
        if ra != rb:
            return {"seed": rec["seed"], "tag": "modes", "clause": "18h",
                    "msg": "operation %s gives %r with parallel=%s and %r with parallel=%s"
                           % (ida, ra, rec["knobs"].get("parallel"), rb, rec2["knobs"]["parallel"]),
                    "op": ida, "record": rec}, b
    return None, b


def run_parallel(tasks, workers):
    """tasks: list of _task argument tuples.  Returns list of results in order; raises on worker death."""
    import concurrent.futures as cf
    import multiprocessing as mp
    if workers <= 1:
        return [_task(t) for t in tasks]
    ctx = mp.get_context("fork")
    with cf.ProcessPoolExecutor(max_workers=workers, mp_context=ctx) as ex:
        futs = [ex.submit(_task, t) for t in tasks]
        return [f.result() for f in futs]


def chunked(xs, n):
    xs = list(xs)
    return [xs[i:i + n] for i in range(0, len(xs), n)]

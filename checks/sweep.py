"""Systematic sweeps inside a seeded base history.

C19: every mutating file-system event of every request is used once as a crash point (plus a torn
variant for raw writes), and every applicable fault kind is injected once at every download position
(each miss of each request), each followed by a retry, the drain, and the two probes.
C18: the base history is re-run under every clock policy / timestamp granularity / atime policy.
"""
import json

from gen.workload import generate, fault_kinds_for, make_fault
from sim.world import mix
import random


def _clone(rec):
    return json.loads(json.dumps(rec))


def sweep_history(prop, seed, agg, opts):
    from checks.runner import run_record
    profile = dict(opts.get("profile") or {})
    profile["fault_free"] = True
    profile.setdefault("length", None)
    base = generate(prop, seed, profile)
    if prop == "C18":
        return sweep_clock(base, agg, opts)
    return sweep_base(base, seed, agg, opts)


def sweep_base(base, seed, agg, opts):
    """crash-point / fault-position / zombie-schedule sweep of one fault-free base history (C19)"""
    from checks.runner import run_record
    if base["knobs"].get("wide") and base["knobs"].get("fine_grained"):
        # line-level pre-emption of requests of > 50 uris costs seconds per run: the seeded search covers that
        # combination, the sweep (hundreds of re-runs of one history) takes the history at I/O granularity
        base = _clone(base)
        base["knobs"]["fine_grained"] = False
        agg.c["sweep_wide_history_at_io_granularity"] += 1
    w = run_record(base, mut_trace=True)
    agg.add_world(w, tag="sweep-base")
    if w.violation or w.harness:
        return
    rng = random.Random(mix(seed, "sweep"))
    trace = w.director.mut_trace
    # every mutating file-system event of every cache operation (requests, removals, purges, reopens and
    # the initial open) is a crash point
    crash_ids = {o["id"] for o in base["ops"] if o["op"] in ("GET", "REMOVE", "PURGE", "REOPEN")} | {-1}
    points = [t for t in trace if t[0] in crash_ids]
    # the number of re-runs is scaled to what one run of this history costs (a deterministic measure: its yield
    # points), so that one expensive history cannot eat a task's wall-clock limit (found by a soak, DESIGN 15.5)
    cost_cap = max(24, 5_000_000 // max(1, w.sched.step))
    if cost_cap < max(opts.get("crash_limit", 200), opts.get("fault_limit", 150)):
        agg.c["sweep_limits_scaled_to_cost"] += 1
    limit = min(opts.get("crash_limit", 200), cost_cap)
    if len(points) > limit:
        idx = sorted(rng.sample(range(len(points)), limit))
        points = [points[i] for i in idx]
    agg.c["sweep_crash_points"] += len(points)
    for (op_id, m, kind, path, n, actor) in points:
        variants = [None]
        if kind == "write" and n > 1:
            variants.append(0.5)
        for torn in variants:
            rec = _clone(base)
            rec["crash"] = {"op": op_id, "at": m, "torn": torn}
            ww = run_record(rec)
            agg.add_world(ww, tag="crash@%s.%d%s" % (op_id, m, "t" if torn else ""))
    # single faults at every download position
    keys = base["knobs"]["keys"]
    nfault = 0
    flimit = min(opts.get("fault_limit", 150), cost_cap)
    plan = []
    for o in base["ops"]:
        if o["op"] != "GET":
            continue
        for k in w.miss_log.get(o["id"], []):
            for kind in fault_kinds_for(keys[k], base["knobs"].get("parallel", True)):
                if kind in ("ERR_MID", "RET_FALSE_MID", "INTERRUPT_MID", "NOTFOUND_MID"):
                    for kk in (0, 1, 3):
                        plan.append((o, k, kind, {"k": kk}))
                elif kind in ("EIO", "ENOSPC", "SHORT_WRITE"):
                    for nth in (0, 1):
                        plan.append((o, k, kind, {"nth": nth, "frac": 0.3}))
                else:
                    plan.append((o, k, kind, {}))
                    if kind in ("HTTP_5XX", "CONN_ERR", "TIMEOUT", "ERR_BEFORE"):
                        plan.append((o, k, kind, {"persist": True}))
                    if kind == "HTTP_404":
                        plan.append((o, k, kind, {"status": 410}))
                        plan.append((o, k, kind, {"status": 403}))
                    if kind == "HTTP_5XX":
                        plan.append((o, k, kind, {"status": 500}))
                        plan.append((o, k, kind, {"status": 429}))
        # validator rejections of hits
        hits = [k for k in o["keys"] if k not in w.miss_log.get(o["id"], []) and keys[k]["val"]]
        for k in hits:
            for kind in ("VALIDATE_FALSE", "VALIDATE_IOERROR"):
                plan.append((o, k, kind, {}))
                # ... and the refetch fails
                for kind2 in fault_kinds_for(keys[k])[:4]:
                    plan.append((o, k, kind, {"then": kind2}))
                # ... or the operating system refuses to delete the rejected file
                plan.append((o, k, kind, {"then": "UNLINK_EACCES"}))
    # zombie schedules: a fault in the first pool chunk of a >= 6-miss parallel request, re-run under several
    # scheduling policies so that another chunk is still in flight when the request fails
    zplan = []
    if base["knobs"].get("parallel"):
        for o in base["ops"]:
            ms = w.miss_log.get(o["id"], []) if o["op"] == "GET" else []
            if len(ms) < 6:
                continue
            for k in ms[:5]:
                kinds = [x for x in fault_kinds_for(keys[k]) if x in ("ERR_BEFORE", "NOTFOUND", "EMFILE", "CONN_ERR", "PP_ERR_BEFORE")]
                for kind in kinds[:2]:
                    for pol in ({"policy": "pct", "d": 1}, {"policy": "pct", "d": 3}, {"policy": "sticky", "p": 0.5},
                                {"policy": "uniform"}):
                        zplan.append((o, k, kind, pol))
    zl = min(opts.get("zombie_limit", 60), cost_cap)
    if len(zplan) > zl:
        idx = sorted(rng.sample(range(len(zplan)), zl))
        zplan = [zplan[i] for i in idx]
    agg.c["sweep_zombie_schedules"] += len(zplan)
    zid = 20_000
    for (o, k, kind, pol) in zplan:
        rec = _clone(base)
        rec["knobs"]["sched"] = pol
        rec["knobs"]["allow_missing"] = False if kind == "NOTFOUND" else rec["knobs"].get("allow_missing", True)
        rec["faults"] = [make_fault(rng, o["id"], kind, k)]
        pos = [i for i, x in enumerate(rec["ops"]) if x["id"] == o["id"]][0]
        rec["ops"].insert(pos + 1, {"id": zid, "op": "GET", "keys": list(o["keys"]), "dt": 0})
        rec["ops"].insert(pos + 2, {"id": zid + 1, "op": "GET", "keys": list(o["keys"])[5:] or list(o["keys"]), "dt": 0})
        ww = run_record(rec)
        agg.add_world(ww, tag="zombie@%s.k%d.%s.%s" % (o["id"], k, kind, pol["policy"]))
    if len(plan) > flimit:
        idx = sorted(rng.sample(range(len(plan)), flimit))
        plan = [plan[i] for i in idx]
    agg.c["sweep_fault_positions"] += len(plan)
    nid = 10_000
    for (o, k, kind, extra) in plan:
        rec = _clone(base)
        f = {"op": o["id"], "kind": kind, "key": k}
        f.update({a: b for a, b in extra.items() if a != "then"})
        rec["faults"] = [f]
        if extra.get("then"):
            rec["faults"].append(make_fault(rng, o["id"], extra["then"], k))
        # retry right after the faulted request
        pos = [i for i, x in enumerate(rec["ops"]) if x["id"] == o["id"]][0]
        rec["ops"].insert(pos + 1, {"id": nid, "op": "GET", "keys": list(o["keys"]), "dt": 1000})
        ww = run_record(rec)
        agg.add_world(ww, tag="fault@%s.k%d.%s" % (o["id"], k, kind))


def sweep_clock(base, agg, opts):
    from checks.runner import run_record
    variants = [
        {"policy": "fine", "gran": 1}, {"policy": "fine", "gran": 10**6},
        {"policy": "coarse", "gran": 10**7}, {"policy": "coarse", "gran": 10**9}, {"policy": "coarse", "gran": 2 * 10**9},
        {"policy": "frozen", "gran": 1}, {"policy": "frozen", "gran": 10**9},
    ]
    for ck in variants:
        for at in ("strict", "noatime"):
            rec = _clone(base)
            rec["knobs"]["clock"] = ck
            rec["knobs"]["atime"] = at
            rec["clock_events"] = []
            w = run_record(rec)
            agg.add_world(w, tag="clock=%s/%d/%s" % (ck["policy"], ck["gran"], at))
    # backward step at the start of every operation
    for o in base["ops"]:
        rec = _clone(base)
        rec["knobs"]["clock"] = {"policy": "jumpy", "gran": 1}
        rec["clock_events"] = [{"op": o["id"], "at": 0, "delta": -3600 * 10**9}]
        w = run_record(rec)
        agg.add_world(w, tag="back@%s" % o["id"])


# ---------------------------------------------------------------- small scope (C18)
SMALL_KEYS = [
    {"scheme": "sim", "res": "r0", "comment": "", "pp": False, "val": False},
    {"scheme": "sim", "res": "r1", "comment": "", "pp": False, "val": False},
    {"scheme": "sim", "res": "r1", "comment": "c1", "pp": True, "val": False},
]
SMALL_SIZES = {"r0": 300, "r1": 500}
SMALL_OPS = [
    {"op": "GET", "keys": [0]}, {"op": "GET", "keys": [1]}, {"op": "GET", "keys": [0, 1]}, {"op": "GET", "keys": [1, 2]},
    {"op": "GET", "keys": [2, 0, 1]}, {"op": "REMOVE", "key": 0}, {"op": "PURGE"}, {"op": "REOPEN", "size": None, "evict": False},
    {"op": "TOUCH", "key": 0}, {"op": "AGE", "key": 1, "delta": -3600 * 10**9}, {"op": "FOREIGN", "name": "@k0.bak", "size": 10, "age": 0},
    {"op": "USER_READ", "key": 0},
]
SMALL_LIMITS = [100, 520, 830, 1400]  # enlarge always / one file / two files / everything fits
SMALL_CLOCKS = [{"policy": "fine", "gran": 1}, {"policy": "frozen", "gran": 1}]


def smallscope_size(max_len=3):
    n = sum(len(SMALL_OPS) ** k for k in range(1, max_len + 1))
    return n * len(SMALL_LIMITS) * len(SMALL_CLOCKS) * 2


def smallscope_record(index, max_len=3):
    """index -> record: every operation sequence of length <= max_len over SMALL_OPS x limit x clock x mode."""
    nops = len(SMALL_OPS)
    par = index % 2
    index //= 2
    ck = SMALL_CLOCKS[index % len(SMALL_CLOCKS)]
    index //= len(SMALL_CLOCKS)
    lim = SMALL_LIMITS[index % len(SMALL_LIMITS)]
    index //= len(SMALL_LIMITS)
    length = 1
    while index >= nops ** length:
        index -= nops ** length
        length += 1
    seq = []
    for _ in range(length):
        seq.append(index % nops)
        index //= nops
    ops = []
    for i, j in enumerate(seq):
        o = dict(SMALL_OPS[j])
        o["id"] = i
        o["dt"] = 10**6
        ops.append(o)
    return {"property": "C18", "seed": 777, "knobs": {
        "keys": [dict(k) for k in SMALL_KEYS], "res_sizes": dict(SMALL_SIZES), "max_bytes": lim, "size_class": "small",
        "parallel": bool(par), "allow_missing": True, "api": "object", "clock": dict(ck), "atime": "relatime",
        "listing": "sorted", "sched": {"policy": "uniform"} if par else {"policy": "none"}, "chunk": 4096, "bufsize": 8192,
        "evict_on_startup": False}, "ops": ops, "faults": [], "crash": None, "clock_events": []}


# ---------------------------------------------------------------- small scope (C19)
SMALL19_KEYS = [
    {"scheme": "sim", "res": "r0", "comment": "", "pp": False, "val": True},
    {"scheme": "sim", "res": "r1", "comment": "", "pp": True, "val": False},
    {"scheme": "file", "res": "r1", "comment": "c1", "pp": False, "val": False},
    {"scheme": "https", "res": "r0", "comment": "c2", "pp": True, "val": True},
]
SMALL19_OPS = [
    {"op": "GET", "keys": [0]}, {"op": "GET", "keys": [1]}, {"op": "GET", "keys": [2, 0]}, {"op": "GET", "keys": [3, 1, 0]},
    {"op": "GET", "keys": [1, 3]}, {"op": "REMOVE", "key": 0}, {"op": "REOPEN", "size": None, "evict": True},
]
SMALL19_LIMITS = [450, 5000]


def smallscope19_bases(max_len=2):
    import itertools
    out = []
    for length in range(1, max_len + 1):
        for seq in itertools.product(range(len(SMALL19_OPS)), repeat=length):
            if not any(SMALL19_OPS[j]["op"] == "GET" for j in seq):
                continue
            for lim in SMALL19_LIMITS:
                for allow in (True, False):
                    ops = []
                    for i, j in enumerate(seq):
                        o = dict(SMALL19_OPS[j])
                        o["id"] = i
                        o["dt"] = 10**6
                        ops.append(o)
                    out.append({"property": "C19", "seed": 778, "knobs": {
                        "keys": [dict(k) for k in SMALL19_KEYS], "res_sizes": {"r0": 300, "r1": 200}, "max_bytes": lim,
                        "size_class": "small", "parallel": False, "allow_missing": allow, "api": "object",
                        "clock": {"policy": "fine", "gran": 1}, "atime": "relatime", "listing": "sorted",
                        "sched": {"policy": "none"}, "chunk": 128, "bufsize": 8192, "evict_on_startup": False},
                        "ops": ops, "faults": [], "crash": None, "clock_events": []})
    return out

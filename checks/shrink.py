"""Delta-debugging minimiser for run records.  A candidate is accepted iff it still violates the same clause."""
import copy
import json


def _clone(rec):
    return json.loads(json.dumps(rec))


def ddmin(items, test):
    """Classic ddmin on a list; test(list)->bool (True = still failing).  Returns a 1-minimal sublist."""
    n = 2
    items = list(items)
    while len(items) >= 2:
        chunk = max(1, len(items) // n)
        subsets = [items[i:i + chunk] for i in range(0, len(items), chunk)]
        reduced = False
        for i in range(len(subsets)):
            complement = [x for j, sub in enumerate(subsets) if j != i for x in sub]
            if test(complement):
                items = complement
                n = max(n - 1, 2)
                reduced = True
                break
        if not reduced:
            if chunk == 1:
                break
            n = min(len(items), n * 2)
    if len(items) == 1 and test([]):
        return []
    return items


def _drop_orphan_crashes(c, ids):
    """a crash point whose operation was deleted goes with it (ids of automatic reopens are '<op id>.r')"""
    for name in ("crash", "crash2"):
        cr = c.get(name)
        if cr and cr["op"] not in ids and str(cr["op"]).split(".")[0] not in {str(i) for i in ids}:
            c[name] = None
    if c.get("crash") is None and c.get("crash2") is not None:
        c["crash"], c["crash2"] = c["crash2"], None


class Shrinker:
    def __init__(self, rec, clause, evaluate, budget=400, choices_of=None):
        """evaluate(rec) -> clause string of the violation found, or None.
        choices_of(rec) -> {op id: [actor names chosen at each scheduling decision]} of that execution."""
        self.best = _clone(rec)
        self.clause = clause
        self.evaluate = evaluate
        self.budget = budget
        self.calls = 0
        self.choices_of = choices_of

    def _fails(self, rec):
        if self.calls >= self.budget:
            return False
        self.calls += 1
        try:
            return self.evaluate(rec) == self.clause
        except Exception:
            return False

    def _try(self, rec):
        if self._fails(rec):
            self.best = rec
            return True
        return False

    def run(self):
        for _ in range(2):
            before = json.dumps(self.best, sort_keys=True)
            self.drop_crash_and_faults()
            self.drop_ops()
            self.shrink_requests()
            self.simplify_knobs()
            self.simplify_schedule()
            self.drop_keys()
            self.shrink_sizes()
            if json.dumps(self.best, sort_keys=True) == before:
                break
        self.budget += 150
        self.explicit_schedule()
        return self.best

    def explicit_schedule(self):
        """Replace the seeded scheduling policy by the explicit list of choices it made, then minimise that
        list: drop it per operation, cut it to the shortest prefix that still fails (past the prefix the
        running actor simply continues), and turn single choices into "=" (stay on the current actor)."""
        if self.choices_of is None:
            return
        ch = self.choices_of(self.best)
        if not ch or not any(ch.values()):
            return
        c = _clone(self.best)
        c["sched_choices"] = {k: list(v) for k, v in ch.items()}
        if not self._try(c):
            return
        for op in sorted(self.best["sched_choices"], key=str):
            lst = self.best["sched_choices"][op]
            if not lst:
                continue
            c = _clone(self.best)
            c["sched_choices"][op] = []
            if self._try(c):
                continue
            lo, hi = 0, len(lst)  # shortest failing prefix length in (lo, hi]
            while hi - lo > 1:
                mid = (lo + hi) // 2
                c = _clone(self.best)
                c["sched_choices"][op] = lst[:mid]
                if self._fails(c):
                    hi = mid
                else:
                    lo = mid
            if hi < len(lst):
                c = _clone(self.best)
                c["sched_choices"][op] = lst[:hi]
                self._try(c)
            lst = self.best["sched_choices"][op]
            for i in range(len(lst)):
                if self.best["sched_choices"][op][i] == "=":
                    continue
                c = _clone(self.best)
                c["sched_choices"][op][i] = "="
                self._try(c)
        # ops without decisions need no entry
        c = _clone(self.best)
        c["sched_choices"] = {k: v for k, v in c["sched_choices"].items() if v}
        self.best = c

    # ------------------------------------------------------------- passes
    def drop_crash_and_faults(self):
        b = self.best
        if b.get("crash2"):
            c = _clone(b)
            c["crash2"] = None
            self._try(c)
        b = self.best
        if b.get("crash"):
            c = _clone(b)
            c["crash"], c["crash2"] = c.get("crash2"), None
            self._try(c)
        if self.best.get("faults"):
            def test(fs):
                c = _clone(self.best)
                c["faults"] = fs
                return self._fails(c)
            fs = ddmin(self.best["faults"], test)
            c = _clone(self.best)
            c["faults"] = fs
            self.best = c
        if self.best.get("clock_events"):
            def test2(ce):
                c = _clone(self.best)
                c["clock_events"] = ce
                return self._fails(c)
            ce = ddmin(self.best["clock_events"], test2)
            c = _clone(self.best)
            c["clock_events"] = ce
            self.best = c

    def drop_ops(self):
        def test(ops):
            c = _clone(self.best)
            c["ops"] = ops
            ids = {o["id"] for o in ops}
            c["faults"] = [f for f in c.get("faults", []) if f["op"] in ids]
            _drop_orphan_crashes(c, ids)
            return self._fails(c)
        ops = ddmin(self.best["ops"], test)
        c = _clone(self.best)
        c["ops"] = ops
        ids = {o["id"] for o in ops}
        c["faults"] = [f for f in c.get("faults", []) if f["op"] in ids]
        _drop_orphan_crashes(c, ids)
        self.best = c

    def shrink_requests(self):
        for idx in range(len(self.best["ops"])):
            op = self.best["ops"][idx]
            if op["op"] != "GET" or len(op["keys"]) <= 1:
                continue
            fault_keys = {f["key"] for f in self.best.get("faults", []) if f["op"] == op["id"]}

            ov = op.get("val") or [None] * len(op["keys"])
            pairs = list(zip(op["keys"], ov + [None] * (len(op["keys"]) - len(ov))))

            def build(ps, idx=idx):
                c = _clone(self.best)
                c["ops"][idx]["keys"] = [k for k, _ in ps]
                if op.get("val"):
                    c["ops"][idx]["val"] = [v for _, v in ps]
                return c

            def test(ps, idx=idx):
                if not ps:
                    return False
                return self._fails(build(ps))
            ps = ddmin(pairs, test)
            if ps and len(ps) != len(pairs):
                self.best = build(ps)
        # zero the think times
        c = _clone(self.best)
        for op in c["ops"]:
            op["dt"] = 1000
        self._try(c)

    def simplify_knobs(self):
        simple = [("clock", {"policy": "fine", "gran": 1}), ("listing", "sorted"), ("atime", "noatime"),
                  ("api", "object"), ("bufsize", 8192), ("chunk", 4096), ("evict_on_startup", False),
                  ("parallel", False), ("allow_missing", True)]
        for k, v in simple:
            if self.best["knobs"].get(k) != v:
                c = _clone(self.best)
                c["knobs"][k] = v
                if k == "clock":
                    c["clock_events"] = []
                self._try(c)
        for k in ("keys",):
            c = _clone(self.best)
            changed = False
            for kd in c["knobs"]["keys"]:
                for flag in ("pp", "val"):
                    if kd.get(flag):
                        kd[flag] = False
                        changed = True
            if changed and not self._try(c):
                for i in range(len(self.best["knobs"]["keys"])):
                    for flag in ("pp", "val"):
                        if self.best["knobs"]["keys"][i].get(flag):
                            c = _clone(self.best)
                            c["knobs"]["keys"][i][flag] = False
                            self._try(c)
        c = _clone(self.best)
        ch = False
        for kd in c["knobs"]["keys"]:
            if kd["scheme"] != "sim":
                kd["scheme"] = "sim"
                ch = True
        if ch:
            seen = set()
            okk = True
            for kd in c["knobs"]["keys"]:
                t = (kd["scheme"], kd["res"], kd["comment"])
                if t in seen:
                    okk = False
                seen.add(t)
            if okk:
                self._try(c)

    def simplify_schedule(self):
        if (self.best["knobs"].get("sched") or {}).get("policy", "none") != "none":
            c = _clone(self.best)
            c["knobs"]["sched"] = {"policy": "none"}
            if self._try(c):
                return
            # per operation: no pre-emption
            for op in self.best["ops"]:
                c = _clone(self.best)
                c.setdefault("sched_overrides", {})[str(op["id"])] = "stay"
                self._try(c)

    def drop_keys(self):
        """Remove keys no operation refers to and renumber."""
        b = self.best
        used = set()
        for o in b["ops"]:
            if "keys" in o:
                used |= set(o["keys"])
            if "key" in o:
                used.add(o["key"])
        for f in b.get("faults", []):
            if f.get("key") is not None:
                used.add(f["key"])
        n = len(b["knobs"]["keys"])
        if len(used) == n or not used:
            return
        order = sorted(used)
        remap = {old: new for new, old in enumerate(order)}
        c = _clone(b)
        c["knobs"]["keys"] = [b["knobs"]["keys"][i] for i in order]
        res_used = {k["res"] for k in c["knobs"]["keys"]}
        for o in c["ops"]:
            if o.get("res") is not None:
                res_used.add(o["res"])
        c["knobs"]["res_sizes"] = {r: s for r, s in b["knobs"]["res_sizes"].items() if r in res_used}
        for o in c["ops"]:
            if "keys" in o:
                o["keys"] = [remap[k] for k in o["keys"]]
            if "key" in o:
                o["key"] = remap[o["key"]]
        for f in c.get("faults", []):
            if f.get("key") is not None:
                f["key"] = remap[f["key"]]
        self._try(c)

    def shrink_sizes(self):
        b = self.best
        for r, size in sorted(b["knobs"]["res_sizes"].items()):
            for target in (100, 1000):
                if size > target:
                    c = _clone(self.best)
                    scale = target / size
                    c["knobs"]["res_sizes"][r] = target
                    if self._try(c):
                        break

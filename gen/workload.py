"""Seeded swarm generator: one integer -> one complete run record (knobs, operations, faults,
crash point, clock events).  Everything is drawn from a PRNG derived from the seed; nothing else.
"""
import json
import os
import random

from sim.world import mix

SIZE_CLASSES = [
    (3, [0, 1]),
    (40, [100, 200, 300, 400, 500, 600, 700, 800, 900]),
    (14, [4095, 4096, 4097, 8191, 8192, 8193]),
    (6, [65537, 70001]),
    (2, [400_000, 1_100_000]),
]

FOREIGN_NAMES = ["notes.txt", "cachefile_keepme", "keepme_cachefile", "sub/cachefile_abc_cachefile", "sub/data.bin",
                 "cachefile", "_cachefile", "xcachefile_abc_cachefile", "cachefile_abc_cachefile.bak",
                 # user files named after a real cache file of this run ('@k<i>' = cache file name of key i)
                 "@k0.bak", "@k1.bak", "@k2~", "old-@k0", "@k1.orig", "sub/@k0", "backup_@k2.tar",
                 "cachefile_0123456789abcdef0123456789abcdef_cachefile.bak",
                 # other programs' unfinished downloads / temporaries living in the same directory
                 "backup.tar.part", "movie.mkv.part", "data.tmp", ".hidden", "dl-user.tmp",
                 # symbolic links: a cache entry pre-seeded as a link to the user's own copy of the object; the user's
                 # own links pointing at a cache file, at nothing, at a sub directory
                 # a user's sub-directory whose NAME has the shape of a cache file name
                 "cachefile_userdir_cachefile/keep.txt", "cachefile_0123456789abcdef0123456789abcdef_cachefile/x.bin",
                 "linkentry:@k0", "linkentry:@k1", "linkentry:@k2", "link:latest:@k0", "link:current.bin:@k1",
                 "link:dangling:nowhere.bin", "link:cachefile_link_cachefile.lnk:@k0"]


def wchoice(rng, pairs):
    tot = sum(w for w, _ in pairs)
    x = rng.random() * tot
    for w, v in pairs:
        x -= w
        if x < 0:
            return v
    return pairs[-1][1]


HASH_TWINS = json.load(open(os.path.join(os.path.dirname(os.path.abspath(__file__)), "hash_twins.json")))


def gen_knobs(rng, prop, profile):
    c19 = prop == "C19"
    big = profile.get("big_requests", rng.random() < 0.30)
    K = wchoice(rng, [(50, rng.randint(3, 6)), (25, rng.randint(7, 10)), (25, rng.randint(11, 14))]) if big else \
        wchoice(rng, [(70, rng.randint(3, 5)), (30, rng.randint(6, 9))])
    wide = profile.get("wide", False)
    if wide:
        K = rng.randint(52, 66)  # more uris than the pool has workers x chunk size (10 x 5)
    nres = rng.randint(max(1, K - 3), K)
    res_names = ["r%d" % i for i in range(nres)]
    if rng.random() < 0.15:
        # unusual but legal object names (query strings, ports-like colons, nested paths, spaces, '=' and ';')
        odd = ["r0?x=1&y=2", "a/b/r%d", "r%d v2", "k=v;r%d", "r%d:8080", "r\u00e9sum\u00e9%d", "api/obs?station=%d",
               "api/obs?station=%d", "track#%d", "cal%%41_%d.bin", "obs?id=%d", "track#%d"]
        for i in range(nres):
            if rng.random() < 0.4:
                t = rng.choice(odd)
                res_names[i] = (t % i) if "%d" in t else t + str(i)
    res_sizes = {}
    huge = rng.random() < 0.06 and not wide
    for r in res_names:
        cls = wchoice(rng, [(w, c) for w, c in SIZE_CLASSES[:-1]] + ([(30, SIZE_CLASSES[-1][1])] if huge else []))
        res_sizes[r] = rng.choice(cls) if not wide else rng.choice([100, 200, 300])
    scheme_w = wchoice(rng, [(50, [(60, "sim"), (20, "https"), (20, "file")]), (20, [(100, "sim")]),
                             (15, [(100, "https")]), (15, [(100, "file")])])
    keys = []
    used = set()
    for i in range(K):
        for _ in range(20):
            res = res_names[i] if i < nres else rng.choice(res_names)
            comment = "" if i < nres else "c%d" % rng.randint(1, 3)
            scheme = wchoice(rng, scheme_w)
            if scheme == "file" and "/" in res:
                scheme = "sim"
            if scheme == "https" and ("#" in res or "%" in res):
                # an http client does not send a fragment and normalises percent-escapes: such names would test
                # the fidelity of the http stand-in, not the cache
                scheme = "sim"
            if (scheme, res, comment) not in used:
                break
        else:
            continue
        used.add((scheme, res, comment))
        keys.append({"scheme": scheme, "res": res, "comment": comment,
                     "pp": rng.random() < (0.35 if c19 else 0.25),
                     "val": rng.random() < (0.35 if c19 else 0.15)})
    if len(keys) >= 2 and rng.random() < 0.12:
        # a pair of uris whose texts differ only by the comment separator: "<res><<c1" and "<res>c1"
        a = keys[0]
        twin_res = a["res"] + "c1"
        res_sizes[twin_res] = rng.choice([100, 300, 4097])
        keys[0] = dict(a, comment="c1")
        keys[1] = {"scheme": a["scheme"], "res": twin_res, "comment": "", "pp": a["pp"], "val": keys[1]["val"]}
        if rng.random() < 0.5 and len(keys) >= 3:
            keys[2] = dict(a, comment="")  # ... and the bare resource itself
        seen = set()
        keys = [k for k in keys if (k["scheme"], k["res"], k["comment"]) not in seen and not seen.add((k["scheme"], k["res"], k["comment"]))]
    for kd in keys:
        if kd["pp"] and kd["val"] and rng.random() < 0.5:
            kd["rev"] = True  # this uri is written with its two directives in the other order
    second = rng.random() < 0.35
    if rng.random() < 0.25:
        # some objects live in a second store that shares the sim:// scheme (resource chosen by valid_uri)
        for kd in keys:
            if kd["scheme"] == "sim" and "/" not in kd["res"] and rng.random() < 0.5:
                new = "private/" + kd["res"]
                if (kd["scheme"], new, kd["comment"]) not in {(x["scheme"], x["res"], x["comment"]) for x in keys}:
                    res_sizes.setdefault(new, res_sizes[kd["res"]])
                    kd["res"] = new
    if len(keys) >= 2 and rng.random() < 0.08:
        # two uris that collide under an ABBREVIATED or weak hash of the uri (first/last 10 hex digits of md5,
        # first 10 of sha1/sha256, adler32): found offline by tools/find_hash_twins.py
        a, b = HASH_TWINS[rng.choice(sorted(HASH_TWINS))]
        taken = {(x["scheme"], x["res"], x["comment"]) for x in keys[2:]}
        if ("sim", a, "") not in taken and ("sim", b, "") not in taken:
            for i, name in ((0, a), (1, b)):
                res_sizes[name] = rng.choice([100, 300, 1000])
                keys[i] = dict(keys[i], scheme="sim", res=name, comment="")
    if len(keys) >= 2 and rng.random() < 0.06:
        # two uris that differ only in the letter case of the bucket ("host") part: sim://bucket/x and sim://Bucket/x
        a = keys[0]
        if a["scheme"] == "sim" and "/" not in a["res"] and not a["comment"]:
            twin = rng.choice(["Bucket/", "BUCKET/"]) + a["res"]
            if ("sim", twin, "") not in {(x["scheme"], x["res"], x["comment"]) for x in keys}:
                res_sizes[twin] = rng.choice([100, 300, 1000])
                keys[1] = {"scheme": "sim", "res": twin, "comment": "", "pp": a["pp"], "val": keys[1]["val"]}
    if c19 and len(keys) >= 3 and rng.random() < 0.06:
        keys[-1] = dict(keys[-1], scheme="nosuch")  # a uri whose scheme no resource handles
    sizes = sorted(res_sizes[k["res"]] + (4 if k["pp"] else 0) for k in keys)
    total = sum(sizes)
    cls = wchoice(rng, [(12, "tiny"), (30, "few"), (33, "half"), (25, "all")])
    if wide and rng.random() < 0.7:
        cls = "most"  # the whole alphabet does not quite fit, although any 50 uris do
    if cls == "tiny":
        max_bytes = max(1, sizes[0] - 1) if sizes[0] > 1 else 1
    elif cls == "few":
        n = rng.randint(1, 2)
        max_bytes = sum(sizes[-n:]) + rng.randint(0, 50)
    elif cls == "most":
        max_bytes = max(1, int(total * rng.uniform(0.86, 0.99)))
    elif cls == "half":
        max_bytes = max(1, int(total * rng.uniform(0.3, 0.7)))
    else:
        max_bytes = total + rng.randint(0, 1000)
    pol = wchoice(rng, [(35, "fine"), (30, "coarse"), (15, "frozen"), (20, "jumpy")])
    gran = 1
    if pol == "coarse":
        gran = rng.choice([10**6, 10**7, 10**9, 2 * 10**9])
    elif rng.random() < 0.3:
        gran = rng.choice([1000, 10**6])
    sched = wchoice(rng, [(45, {"policy": "sticky", "p": rng.choice([0.5, 0.9, 0.99])}),
                          (30, {"policy": "pct", "d": rng.randint(1, 3)}),
                          (15, {"policy": "uniform"}),
                          (10, {"policy": "none"})])
    api = "module" if rng.random() < 0.2 else "object"
    # (keys obtained THROUGH the second cache - nested requests on two caches - were tried and removed again:
    # see DESIGN 15.5, item 15)
    import hashlib as _hl
    _h = _hl.md5(json.dumps(keys, sort_keys=True).encode()).digest()
    # (derived, not drawn) most bytes a single sendfile() call moves: shutil.copyfile and hand-written copies use it
    sendfile_cap = [None, None, 4096, 100][_h[1] % 4]
    if _h[2] % 12 == 0 and len(keys) >= 2 and all(k["scheme"] == "sim" and not k["comment"] for k in keys[:2]):
        # two uris that are different strings but canonically equivalent under Unicode normalisation (NFC / NFD),
        # naming two different objects on a byte-exact store
        a, b = "caf\u00e9_%d.bin" % (_h[3] % 7), "cafe\u0301_%d.bin" % (_h[3] % 7)
        taken = {(x["scheme"], x["res"], x["comment"]) for x in keys[2:]}
        if ("sim", a, "") not in taken and ("sim", b, "") not in taken:
            res_sizes[a], res_sizes[b] = 100 + 100 * (_h[4] % 5), 100 + 100 * (_h[5] % 5)
            keys[0] = dict(keys[0], res=a)
            keys[1] = dict(keys[1], res=b)
            if cls == "all":
                max_bytes = sum(res_sizes[k["res"]] + (4 if k["pp"] else 0) for k in keys) + 500
    # (derived from the keys, not drawn: no other decision of the run moves) every second run whose uris are all
    # https:// or file:// opens the cache without a resources argument - the default list is built by the cache
    default_resources = all(k["scheme"] in ("https", "file") for k in keys) and \
        _hl.md5(json.dumps(keys, sort_keys=True).encode()).digest()[0] % 2 == 0
    return {
        "default_resources": default_resources, "sendfile_cap": sendfile_cap,
        "keys": keys, "res_sizes": res_sizes, "max_bytes": int(max_bytes), "size_class": cls,
        "parallel": profile.get("parallel", rng.random() < 0.55),
        "allow_missing": rng.random() < 0.6,
        "api": api,
        "clock": {"policy": pol, "gran": gran},
        "atime": rng.choice(["strict", "relatime", "noatime"]),
        "listing": rng.choice(["sorted", "permuted"]),
        "sched": sched,
        "chunk": rng.choice([64, 1000, 4096, 8192, 100_000]),
        "bufsize": wchoice(rng, [(70, 8192), (15, 4096), (15, 65536)]),
        "evict_on_startup": rng.random() < 0.15,
        "val_style": wchoice(rng, [(60, "bool"), (20, "numpy"), (20, "int")]),
        "relative_path": rng.random() < 0.12,
        "warnings_error": rng.random() < 0.08,  # (C19 runs only) the process treats warnings as errors
        "fd_limit": 48 if rng.random() < 0.3 else None,  # a small descriptor limit exposes descriptor leaks
        "second_cache": second,  # (module-level API only) a second named cache in the same process
        "other_max": 10**9,
        "tmp_other_device": rng.random() < 0.5,  # is the system temp directory on another file system?
        "tilde_path": rng.random() < 0.06,
        "ret_style": wchoice(rng, [(75, "true"), (25, "none")]),
        "http_range": rng.random() < 0.5,  # does the simulated http server honour Range requests?
        "err_type": wchoice(rng, [(40, "io"), (13, "conn"), (11, "timeout"), (9, "runtime"), (7, "value"), (8, "os"),
                                  (3, "interrupted"), (3, "blocking"), (2, "perm"), (2, "eof"), (2, "key")]),
        # POSIX TZ strings need no tz database: XXX+7 = seven hours west of UTC, XXX-5:30 = India
        "tz": wchoice(rng, [(60, "UTC"), (14, "XXX+7"), (13, "XXX-2"), (13, "XXX-5:30")]),
        "cache_dir": wchoice(rng, [(70, "cache"), (6, "products[v2]/cache"), (5, "my cache dir"), (5, "c*che?"),
                                   (5, "data.d/cachefile_x_cachefile"), (5, "d\u00e9p\u00f4t/cache"), (4, "a/b/c/cache")]),
        "big_requests": big,
        "wide": wide,
        "fine_grained": bool(profile.get("fine_grained", False)) or (big and rng.random() < 0.04),
        "http_gzip": rng.random() < 0.4,  # does the simulated http server gzip-encode bodies (Content-Encoding)?
        # skew between the clock the process reads and the clock that stamps the files (a file server)
        "proc_clock_skew_ns": wchoice(rng, [(90, 0), (3, -30 * 10**9), (3, 30 * 10**9), (2, -2 * 10**9), (2, 2 * 10**9)]),
        "multipart": rng.random() < 0.2,  # sim:// objects are fetched in parts, each appended with its own open()
        "cache_dir_link": rng.random() < 0.07,  # the cache directory is a symbolic link to a directory elsewhere
        "http_no_length": rng.random() < 0.3,  # ... and does it stream without announcing a Content-Length?
    }


def gen_ops(rng, prop, knobs, profile):
    c19 = prop == "C19"
    K = len(knobs["keys"])
    n = profile.get("length") or wchoice(rng, [(70, rng.randint(3, 9)), (22, rng.randint(10, 16)), (8, rng.randint(17, 60))])
    weights = [(rng.choice([40, 60, 80]), "GET"), (rng.choice([2, 8]), "REMOVE"), (rng.choice([1, 4]), "PURGE"),
               (rng.choice([3, 8]), "REOPEN"), (rng.choice([2, 8]), "TOUCH"), (rng.choice([2, 8]), "AGE"),
               (rng.choice([1, 5]), "FOREIGN"), (rng.choice([1, 5]), "USER_READ"), (rng.choice([0, 3]), "EDIT_CONFIG")]
    if c19:
        weights += [(rng.choice([2, 6]), "RES_UPDATE"), (rng.choice([0, 2]), "RES_DELETE"), (rng.choice([1, 4]), "VALIDATOR")]
    else:
        # the remote object changes (possibly in length) while it is or is not cached
        weights += [(rng.choice([0, 0, 3]), "RES_UPDATE")]
    # settings changed on the running cache through the public properties of its configuration object
    weights += [(rng.choice([0, 0, 2, 5]), "SETCFG")]
    if knobs.get("relative_path") and knobs.get("api") == "module":
        weights += [(6, "CHDIR")]
    if knobs.get("second_cache") and knobs.get("api") == "module":
        weights += [(8, "OTHER_GET")]
    ops = []
    dts = [0, 1000, 10**6, 10**9, 3600 * 10**9]
    big = knobs.get("big_requests")
    for i in range(n):
        kind = wchoice(rng, weights)
        op = {"id": i, "op": kind, "dt": rng.choice(dts)}
        if kind == "GET":
            if big and K >= 6 and rng.random() < 0.5:
                m = rng.randint(6, min(12, K))
            else:
                m = wchoice(rng, [(40, 1), (30, 2), (20, 3), (10, rng.randint(1, min(5, K)))])
            m = min(m, K)
            op["keys"] = rng.sample(range(K), m)
            if rng.random() < 0.01:
                op["keys"] = []  # an empty request
                m = 0
            if not c19 and m >= 2 and rng.random() < (0.15 if m >= 6 else 0.04):
                # the same uri twice in one request (in a big request: in different pool chunks)
                op["keys"][-1] = op["keys"][rng.randrange(0, min(5, m - 1))]
            if c19 and m >= 2 and rng.random() < 0.08:
                # the same uri twice in one request, once without and once with the validate directive
                a, b = sorted(rng.sample(range(m), 2))
                op["keys"][b] = op["keys"][a]
                op["val"] = [None] * m
                first_plain = rng.random() < 0.7
                op["val"][a] = not first_plain
                op["val"][b] = first_plain
            elif c19 and rng.random() < 0.06:
                op["val"] = [rng.choice([None, None, True, False]) for _ in range(m)]
            if m == 1 and rng.random() < 0.3:
                op["as_str"] = True
            elif rng.random() < 0.1:
                op["shape"] = rng.choice(["tuple", "generator"])
        elif kind in ("REMOVE", "TOUCH", "USER_READ"):
            op["key"] = rng.randrange(K)
            if kind == "REMOVE" and rng.random() < 0.4:
                op["shape"] = rng.choice(["list", "generator"])
        elif kind == "AGE":
            op["key"] = rng.randrange(K)
            op["delta"] = rng.choice([-1, -10**6, -10**9, -3600 * 10**9, -86400 * 10**9 * 3, 10**9, 3600 * 10**9])
            if rng.random() < 0.3:
                op["delta_a"] = rng.choice([-10**9, -3600 * 10**9, -86400 * 10**9 * 3, 0, 3600 * 10**9])
        elif kind == "REOPEN":
            op["size"] = None if rng.random() < 0.6 else int(knobs["max_bytes"] * rng.choice([0.5, 1, 2]))
            op["evict"] = rng.random() < 0.3
            if rng.random() < 0.3:
                op["flip_parallel"] = True
        elif kind == "FOREIGN":
            op["name"] = rng.choice(FOREIGN_NAMES)
            op["size"] = rng.choice([0, 10, 5000])
            op["age"] = rng.choice([0, -86400 * 10**9 * 30])
        elif kind == "OTHER_GET":
            op["keys"] = rng.sample(range(K), min(K, rng.randint(1, 3)))
        elif kind == "CHDIR":
            op["to"] = rng.choice(["cwd2", "cwd/sub", "elsewhere"])
        elif kind == "SETCFG":
            op["attr"] = wchoice(rng, [(50, "allow"), (25, "parallel"), (25, "grow")]) if c19 else \
                wchoice(rng, [(50, "parallel"), (50, "grow")])
            if op["attr"] == "allow":
                op["value"] = rng.random() < 0.5
            elif op["attr"] == "grow":
                op["by"] = rng.choice([1, 100, 1000, max(1, knobs["max_bytes"] // 2), knobs["max_bytes"], 10**6 + 7])
                op["via"] = rng.choice(["bytes", "bytes", "gb"])
        elif kind == "EDIT_CONFIG":
            op["size"] = max(1, int(knobs["max_bytes"] * rng.choice([0.3, 0.5, 0.8, 1.5])))
        elif kind in ("RES_UPDATE", "RES_DELETE"):
            op["res"] = rng.choice(sorted(knobs["res_sizes"]))
            if kind == "RES_UPDATE" and rng.random() < 0.6:
                op["size"] = rng.choice([50, 150, 350, 777, 1500, 4097])
        elif kind == "VALIDATOR":
            op["mode"] = rng.choice(["accept", "current"])
        ops.append(op)
        if kind == "FOREIGN" and op["name"].startswith("linkentry:"):
            # the cache is pre-seeded between two processes: the next thing that happens is a (re)open
            ops.append({"id": n + 300 + i, "op": "REOPEN", "dt": 1000, "size": None, "evict": rng.random() < 0.3})
        if kind == "EDIT_CONFIG" and rng.random() < 0.85:
            # the edit takes effect when the cache is opened again
            ops.append({"id": n + 100 + i, "op": "REOPEN", "dt": 1000, "size": None, "evict": rng.random() < 0.6})
    if not any(o["op"] == "GET" for o in ops):
        ops.insert(0, {"id": n, "op": "GET", "keys": [0], "dt": 0})
    return ops


def likely_cached_before(ops, idx):
    s = set()
    for o in ops[:idx]:
        if o["op"] == "GET":
            s |= set(o["keys"])
        elif o["op"] == "REMOVE":
            s.discard(o["key"])
        elif o["op"] == "PURGE":
            s = set()
    return s


def fault_kinds_for(kd, parallel=True):
    kinds = []
    if kd["scheme"] == "sim":
        kinds += ["NOTFOUND", "ERR_BEFORE", "ERR_MID", "ERR_AFTER", "RET_FALSE_BEFORE", "RET_FALSE_MID", "ERR_STOPITER", "NOTFOUND_MID"]
        if not parallel:
            # Ctrl-C reaches the main thread only: meaningful when the download runs there
            kinds += ["INTERRUPT_MID"]
    elif kd["scheme"] == "https":
        kinds += ["HTTP_404", "HTTP_5XX", "CONN_ERR", "TIMEOUT", "HTTP_DROP_MID"]
    kinds += ["EIO", "ENOSPC", "SHORT_WRITE", "EMFILE", "RENAME_EIO"]
    if kd["pp"]:
        kinds += ["PP_ERR_BEFORE", "PP_ERR_MID", "PP_ERR_AFTER", "PP_NOTFOUND", "PP_NOTFOUND_AFTER"]
        if not parallel:
            kinds += ["PP_INTERRUPT_MID"]
    return kinds


def gen_faults(rng, knobs, ops):
    keys = knobs["keys"]
    gets = [i for i, o in enumerate(ops) if o["op"] == "GET" and o["keys"]]
    faults = []
    if not gets:
        return faults
    nf = wchoice(rng, [(10, 0), (45, 1), (30, 2), (15, 3)])
    extra_ops = []
    if rng.random() < 0.05:
        # the disk is full during one whole request; the same request is repeated afterwards
        gi = rng.choice(gets)
        faults.append({"op": ops[gi]["id"], "kind": "DISK_FULL", "key": None})
        extra_ops.append((gi, {"op": "GET", "keys": list(ops[gi]["keys"]), "dt": 1000}))
    for _ in range(nf):
        gi = rng.choice(gets)
        op = ops[gi]
        cached = likely_cached_before(ops, gi)
        miss = [k for k in op["keys"] if k not in cached]
        ov = op.get("val") or []
        hit_val = [k for pos, k in enumerate(op["keys"]) if k in cached and
                   (ov[pos] if pos < len(ov) and ov[pos] is not None else keys[k]["val"])]
        if len(set(hit_val)) >= 2 and rng.random() < 0.35:
            # one entry is rejected, then the validator of a later entry of the same request crashes; afterwards
            # the first uri is requested without the validate directive
            a = hit_val[0]
            b = [k for k in hit_val if k != a][-1]
            faults.append({"op": op["id"], "kind": "VALIDATE_FALSE", "key": a})
            faults.append({"op": op["id"], "kind": "VALIDATE_RAISE", "key": b})
            extra_ops.append((gi, {"op": "GET", "keys": [a], "val": [False], "dt": 1000}))
            continue
        if hit_val and rng.random() < 0.5:
            k = rng.choice(hit_val)
            faults.append({"op": op["id"], "kind": rng.choice(["VALIDATE_FALSE", "VALIDATE_IOERROR"]), "key": k})
            if rng.random() < 0.5:
                # the refetch after the rejection fails too
                kind = rng.choice(fault_kinds_for(keys[k], knobs.get("parallel", True)))
                faults.append(make_fault(rng, op["id"], kind, k))
        else:
            pool = miss or op["keys"]
            # bias towards the first chunk of a big parallel request so that another chunk is in flight
            if len(op["keys"]) >= 6 and rng.random() < 0.6:
                pool = [k for k in op["keys"][:5] if k in pool] or pool
            k = rng.choice(pool)
            faults.append(make_fault(rng, op["id"], rng.choice(fault_kinds_for(keys[k], knobs.get("parallel", True))), k))
        if rng.random() < 0.7:
            retry = {"op": "GET", "keys": list(op["keys"]), "dt": rng.choice([0, 1000, 10**9])}
            extra_ops.append((gi, retry))
            if rng.random() < 0.3 and len(op["keys"]) >= 2:
                # the retry meets a fault of its own, on another key of the request (e.g. a sibling that the
                # failed request had already completed turns out to be gone now)
                k2 = rng.choice([x for x in op["keys"] if x != k] or op["keys"])
                retry["_fault"] = (rng.choice(["NOTFOUND"] + fault_kinds_for(keys[k2], knobs.get("parallel", True))), k2)
    # retries directly after the faulted request
    nid = max([o["id"] for o in ops if isinstance(o["id"], int)] + [0]) + 1
    for gi, e in sorted(extra_ops, key=lambda t: -t[0]):
        e["id"] = nid
        nid += 1
        if "_fault" in e:
            kind2, k2 = e.pop("_fault")
            if kind2 == "NOTFOUND" and keys[k2]["scheme"] == "https":
                kind2 = "HTTP_404"
            elif kind2 == "NOTFOUND" and keys[k2]["scheme"] == "file":
                kind2 = "EIO"
            faults.append(make_fault(rng, e["id"], kind2, k2))
        ops.insert(gi + 1, e)
    return faults


def make_fault(rng, op_id, kind, key):
    f = {"op": op_id, "kind": kind, "key": key}
    if kind in ("ERR_MID", "RET_FALSE_MID", "INTERRUPT_MID", "NOTFOUND_MID", "HTTP_DROP_MID"):
        f["k"] = rng.choice([0, 1, 1, 2, 5])
    if kind in ("EIO", "ENOSPC", "SHORT_WRITE"):
        f["nth"] = rng.choice([0, 0, 1, 2])
    if kind == "SHORT_WRITE":
        f["frac"] = rng.choice([0.0, 0.3, 0.9])
    if kind in ("EMFILE", "RENAME_EIO", "UNLINK_EACCES"):
        f["nth"] = 0
    if kind == "HTTP_404":
        f["status"] = rng.choice([404, 404, 404, 410, 403, 401])
    if kind == "HTTP_5XX":
        f["status"] = rng.choice([503, 503, 500, 502, 504, 429])
    if kind in ("HTTP_5XX", "CONN_ERR", "TIMEOUT", "HTTP_404", "ERR_BEFORE", "ERR_MID", "NOTFOUND", "RET_FALSE_MID") and rng.random() < 0.5:
        f["persist"] = True  # the remote stays in that state for the whole operation (matters for code that retries)
    return f


def gen_crash(rng, knobs, ops):
    gets = [o for o in ops if o["op"] == "GET" and o["keys"]]
    cand = gets if (gets and rng.random() < 0.85) else ops
    op = rng.choice(cand)
    nkeys = len(op.get("keys", [1]))
    at = wchoice(rng, [(50, rng.randint(0, 6 * nkeys)), (30, rng.randint(0, 3)), (20, rng.randint(0, 25 * nkeys))])
    return {"op": op["id"], "at": at, "torn": rng.choice([None, 0.0, 0.5, 0.99])}


def gen_second_crash(rng, knobs, ops, first):
    """The process dies a second time: while it reopens the directory after the first crash (start-up scan,
    start-up eviction, rewrite of the configuration), or in a later request (typically the retry)."""
    idx = next((i for i, o in enumerate(ops) if o["id"] == first["op"]), None)
    later = [o for o in (ops[idx + 1:] if idx is not None else []) if o["op"] == "GET" and o["keys"]]
    if later and rng.random() < 0.6:
        op = later[0] if rng.random() < 0.6 else rng.choice(later)
        nkeys = len(op["keys"])
        return {"op": op["id"], "at": rng.randint(0, 6 * nkeys), "torn": rng.choice([None, 0.0, 0.5, 0.99])}
    nxt = ops[idx + 1] if idx is not None and idx + 1 < len(ops) else None
    target = nxt["id"] if (nxt and nxt["op"] == "REOPEN") else "%s.r" % first["op"]
    return {"op": target, "at": rng.randint(0, 3), "torn": rng.choice([None, 0.5])}


def zombie_profile(rng, rec):
    """A history built to keep a pool worker of a failed parallel request alive ("zombie") while the
    caller goes on: a >= 6-miss parallel request whose first chunk fails early, an immediate retry,
    then hits on the same keys while the zombie may still be writing."""
    knobs = rec["knobs"]
    K = len(knobs["keys"])
    m = rng.randint(6, min(12, K))
    keys = rng.sample(range(K), m)
    ops = rec["ops"]
    nid = max([o["id"] for o in ops if isinstance(o["id"], int)] + [0]) + 1
    pos = rng.randint(0, min(2, len(ops)))
    first = {"id": nid, "op": "GET", "keys": keys, "dt": 1000}
    fk = keys[rng.randint(0, min(4, m - 1))]
    kind = rng.choice([k for k in fault_kinds_for(knobs["keys"][fk]) if k not in ("SHORT_WRITE",)] + ["ERR_BEFORE"] * 2)
    if kind == "ERR_BEFORE" and knobs["keys"][fk]["scheme"] != "sim":
        kind = "EMFILE"
    seq = [first]
    for j in range(rng.randint(1, 4)):
        what = wchoice(rng, [(55, "retry"), (15, "part"), (12, "remove"), (8, "purge"), (10, "others")])
        dt = rng.choice([0, 0, 1000])
        if what == "retry":
            seq.append({"id": nid + 1 + j, "op": "GET", "keys": list(keys), "dt": dt})
        elif what == "part":
            seq.append({"id": nid + 1 + j, "op": "GET", "keys": rng.sample(keys, rng.randint(1, m)), "dt": dt})
        elif what == "remove":
            # the caller removes a key the zombie may still be about to publish
            seq.append({"id": nid + 1 + j, "op": "REMOVE", "key": rng.choice(keys[5:] or keys), "dt": dt})
        elif what == "purge":
            seq.append({"id": nid + 1 + j, "op": "PURGE", "dt": dt})
        else:
            rest = [k for k in range(K) if k not in keys] or keys
            seq.append({"id": nid + 1 + j, "op": "GET", "keys": rng.sample(rest, min(len(rest), rng.randint(1, 3))), "dt": dt})
    if rng.random() < 0.65:
        # the zombie's own late attempt fails: the caller first retries the whole request (which registers every
        # key), then goes on with operations that do not fetch zk themselves; a fault for zk is planned in each
        # of them, so whichever one the slow zombie reaches zk in, its attempt fails there
        seq = [first, {"id": nid + 1, "op": "GET", "keys": list(keys), "dt": 0}]
        zk = rng.choice(keys[6:] or keys[5:] or keys)
        zid = nid + 20
        others = [k for k in keys if k != zk]
        zkinds = [k for k in fault_kinds_for(knobs["keys"][zk]) if k not in ("SHORT_WRITE", "EMFILE")]
        late = [k for k in zkinds if k in ("ERR_MID", "ERR_AFTER", "RET_FALSE_MID", "NOTFOUND_MID", "EIO", "ENOSPC", "RENAME_EIO",
                                         "PP_ERR_MID", "PP_ERR_AFTER")]
        zkind = rng.choice(late) if (late and rng.random() < 0.7) else rng.choice(zkinds)
        for j in range(rng.randint(2, 6)):
            seq.append({"id": zid + j, "op": "GET", "keys": rng.sample(others, min(len(others), rng.randint(1, 4))), "dt": 0})
            rec["faults"].append(dict(make_fault(rng, zid + j, zkind, zk), persist=False))
        seq.append({"id": zid + 9, "op": "GET", "keys": [zk], "dt": 0})
        knobs["sched"] = {"policy": "straggler", "q": rng.choice([0.1, 0.2, 0.35])}
    rec["ops"] = ops[:pos] + seq + ops[pos:]
    rec["faults"].append(make_fault(rng, nid, kind, fk))
    if rng.random() < 0.4:
        # a second fault, planned for the retry: it may be consumed by the zombie instead
        k2 = rng.choice(keys[5:] or keys)
        rec["faults"].append(make_fault(rng, nid + 1, rng.choice(fault_kinds_for(knobs["keys"][k2])), k2))


def duplicate_profile(rng, rec):
    """C18: a big parallel request on a cold cache that names one (post-processed) uri twice, the second
    time in a different pool chunk, so that two workers may handle the same cache file concurrently."""
    knobs = rec["knobs"]
    K = len(knobs["keys"])
    m = rng.randint(6, min(11, K))
    keys = rng.sample(range(K), m)
    dup = keys[rng.randint(0, 4)]
    if rng.random() < 0.8:
        knobs["keys"][dup]["pp"] = True
    keys.append(dup)
    nid = max([o["id"] for o in rec["ops"] if isinstance(o["id"], int)] + [0]) + 1
    rec["ops"].insert(0, {"id": nid, "op": "GET", "keys": keys, "dt": 1000})
    if rng.random() < 0.5:
        rec["ops"].insert(1, {"id": nid + 1, "op": "GET", "keys": [dup], "dt": 1000})
    if knobs["sched"]["policy"] == "none":
        knobs["sched"] = {"policy": "uniform"}


def linkentry_profile(rng, rec):
    """A cache entry that is a symbolic link (the user pre-seeded it between two processes), then the situations
    in which its recency, its removal and its eviction matter: other entries used before and after it is hit,
    requests that force partial evictions, removal, purge."""
    knobs = rec["knobs"]
    K = len(knobs["keys"])
    a = rng.randrange(min(K, 3))
    others = [k for k in range(K) if k != a]
    nid = max([o["id"] for o in rec["ops"] if isinstance(o["id"], int)] + [0]) + 1
    seq = []
    if others:
        # (an earlier request shows how this cache names its files)
        seq.append({"op": "GET", "keys": rng.sample(others, min(len(others), rng.randint(1, 2))), "dt": 10**9})
    seq.append({"op": "FOREIGN", "name": "linkentry:@k%d" % a, "size": 0, "age": 0, "dt": 10**9})
    seq.append({"op": "REOPEN", "size": None, "evict": False, "dt": 10**9})
    for _ in range(rng.randint(1, 3)):
        if others:
            seq.append({"op": "GET", "keys": rng.sample(others, min(len(others), rng.randint(1, 2))), "dt": rng.choice([10**6, 10**9])})
    seq.append({"op": "GET", "keys": [a], "dt": rng.choice([10**6, 10**9, 3600 * 10**9])})  # the hit on the link
    for _ in range(rng.randint(1, 4)):
        what = wchoice(rng, [(70, "get"), (10, "remove"), (10, "purge"), (10, "reopen")])
        if what == "get" and others:
            seq.append({"op": "GET", "keys": rng.sample(others, min(len(others), rng.randint(1, 3))), "dt": rng.choice([10**6, 10**9])})
        elif what == "remove":
            seq.append({"op": "REMOVE", "key": a, "dt": 1000})
        elif what == "purge":
            seq.append({"op": "PURGE", "dt": 1000})
        else:
            seq.append({"op": "REOPEN", "size": None, "evict": rng.random() < 0.5, "dt": 1000})
    for j, o in enumerate(seq):
        o["id"] = nid + j
    rec["ops"] = seq + rec["ops"]


def mass_eviction_pass(rng, rec):
    """(round 20, own PRNG stream; only in runs of the "wide" profile) a cache holding 75-95 small entries that has to
    evict nearly all of them AT ONCE: one request for an object about as large as the whole cache, or a start-up
    eviction after the configured size was edited down.  Anything that bounds the work of one eviction pass (a candidate
    list capped at N, seeded change s193) only shows there."""
    knobs = rec["knobs"]
    if not knobs.get("wide") or rng.random() < 0.4:
        return
    keys, rs, ops = knobs["keys"], knobs["res_sizes"], rec["ops"]
    for j in range(max(0, rng.randint(75, 95) - len(keys))):
        rs["m%d" % j] = rng.choice([100, 150, 200, 300])
        keys.append({"scheme": "sim", "res": "m%d" % j, "comment": "", "pp": False, "val": False})
    small = list(range(len(keys)))
    knobs["max_bytes"] = sum(rs[k["res"]] + (4 if k["pp"] else 0) for k in keys) + rng.randint(0, 500)
    rs["mbig"] = max(1, knobs["max_bytes"] - rng.choice([0, 1, 100, 350]))
    keys.append({"scheme": "sim", "res": "mbig", "comment": "", "pp": False, "val": False})
    nid = max([o["id"] for o in ops if isinstance(o["id"], int)] + [0]) + 1
    rng.shuffle(small)
    cut = rng.randint(30, 50)
    seq = [{"op": "GET", "keys": small[:cut], "dt": 10**9}, {"op": "GET", "keys": small[cut:], "dt": 10**9}]
    if rng.random() < 0.7:
        seq.append({"op": "GET", "keys": [len(keys) - 1], "dt": 10**9})
    else:
        seq.append({"op": "EDIT_CONFIG", "size": max(1, int(knobs["max_bytes"] * rng.choice([0.02, 0.1]))), "dt": 1000})
        seq.append({"op": "REOPEN", "size": None, "evict": True, "dt": 1000})
    seq.append({"op": "GET", "keys": rng.sample(small, 2), "dt": 1000})
    for j, o in enumerate(seq):
        o["id"] = nid + 800 + j
    rec["ops"] = ops + seq
    knobs["mass_eviction"] = True


def second_fault_pass(rng, rec):
    """(round 20, own PRNG stream) a second fault of another kind inside an operation that already has one: the
    operating system refuses to DELETE a file of the key (EACCES from unlink) - the removal of an entry its validator
    just rejected, the clean-up of a temporary after a failed attempt."""
    out = []
    gets = {o["id"]: o for o in rec["ops"] if o["op"] == "GET"}
    for f in rec["faults"]:
        # only for a key the operation itself REQUESTS: a refused deletion of some other entry (an eviction victim, a
        # removal, a purge - faults for zombie workers are planned on such operations too) legitimately makes that
        # operation raise and forget the entry (false alarm found by `vp check` under VERIF_SEED=1, DESIGN 15.5 item 32)
        if f.get("key") is None or f["op"] not in gets or f["key"] not in gets[f["op"]]["keys"]:
            continue
        p = 0.35 if f["kind"] in ("VALIDATE_FALSE", "VALIDATE_IOERROR") else 0.04
        if rng.random() < p and not any(g["kind"] == "UNLINK_EACCES" and g["op"] == f["op"] for g in rec["faults"] + out):
            out.append({"op": f["op"], "kind": "UNLINK_EACCES", "key": f["key"], "nth": 0})
    rec["faults"] += out


def odd_inputs_pass(rng, rec):
    """(round 21, own PRNG stream) (a) the http server sends Last-Modified / ETag / Date headers with a date years in the
    past or in the future; (b) an object whose NAME contains ">>" next to the object named by the part in front of it
    (the docstring of __getitem__ calls ">>" the comment separator, the code and everybody's cache files use "<<")."""
    knobs = rec["knobs"]
    keys, rs = knobs["keys"], knobs["res_sizes"]
    if any(k["scheme"] == "https" for k in keys) and rng.random() < 0.5:
        knobs["http_last_modified"] = rng.choice(["past", "past", "future"])
    if rec["property"] == "C18" and rng.random() < 0.05 and not knobs.get("mass_eviction") and not knobs.get("wide"):
        # (d) sparse files: three or four large objects that are mostly zero bytes, fetched by a downloader that seeks
        # over the zero runs, into a cache that holds about two of them (a cache that sizes itself by allocated
        # blocks instead of file lengths never evicts them)
        size = rng.choice([40_000, 65_536, 70_001])
        first = len(keys)
        for j in range(rng.randint(3, 4)):
            rs["sparse%d.nc" % j] = size
            keys.append({"scheme": "sim", "res": "sparse%d.nc" % j, "comment": "", "pp": False, "val": False})
        knobs["sparse_writer"] = True
        knobs["max_bytes"] = max(knobs["max_bytes"], int(size * rng.choice([1.2, 2.2, 2.6])))
        nid = max([o["id"] for o in rec["ops"] if isinstance(o["id"], int)] + [0]) + 1
        seq = [{"id": nid + 900 + j, "op": "GET", "keys": [first + j], "dt": 10**9} for j in range(len(keys) - first)]
        seq.append({"id": nid + 950, "op": "GET", "keys": [first, first + 1], "dt": 10**9})
        rec["ops"] = rec["ops"] + seq
    # (e) round 22: ambient logging level DEBUG; the class of the OSError a failing validator raises; a size limit given
    # as the int 0 (drawn always, in this order, so that later additions do not move them)
    r1, r2, r3 = rng.random(), rng.random(), rng.random()
    if r1 < 0.15:
        knobs["log_debug"] = True
    if r2 < 0.4:
        knobs["val_ioerror_class"] = ["fnf", "perm", "timeout", "isdir"][int(r2 * 10) % 4]
    if r3 < 0.04 and rec["property"] == "C18" and not knobs.get("mass_eviction") and not knobs.get("sparse_writer") \
            and not any(o["op"] in ("REOPEN", "EDIT_CONFIG") for o in rec["ops"]):
        knobs["size_arg_int_zero"] = True
        knobs["max_bytes"] = 0
        knobs["size_class"] = "zero-int"
    rng.random()  # (was: object names that are not valid Unicode - withdrawn, see DESIGN 15.4 s213; the draw is kept)
    if rec["property"] == "C19" and rng.random() < 0.08:
        # (c) downloads and post-processors that fail with an exception deriving from Warning (a numpy/xarray
        # warning in a process run with -W error)
        knobs["err_type"] = rng.choice(["warning", "userwarning"])
    if len(keys) >= 2 and rng.random() < 0.06 and not knobs.get("mass_eviction"):
        a = keys[0]
        if "/" not in a["res"] and not a["comment"] and a["scheme"] in ("sim", "https"):
            twin = a["res"] + ">>" + rng.choice(["v2", "c1", "2023-06-01"])
            if not any(k["res"] == twin for k in keys):
                rs[twin] = rng.choice([100, 300, 1000])
                keys[1] = dict(keys[1], scheme=a["scheme"], res=twin, comment="")


def directive_names_pass(rng, rec):
    """Several named directive functions and their management mid-session (round 20).  Drawn from its OWN stream after
    everything else, so that no other decision of any seed moves: (a) in a quarter of the runs the uris name two
    different post-processors / validators ("pp"/"pp-v2.1", "v"/"v.strict-2": the first name is a prefix of the second) and the user registers them in either order, plus
    one nobody names; (b) in some runs the user swaps an implementation (remove + set under the same name) or registers
    / removes an extra function between two operations."""
    knobs, ops = rec["knobs"], rec["ops"]
    if rng.random() < 0.25:
        for kd in knobs["keys"]:
            if kd.get("pp") and rng.random() < 0.5:
                kd["ppn"] = "pp-v2.1"  # = sim.resources.PP2_NAME
            if rng.random() < 0.5:
                kd["vn"] = "v.strict-2"  # = sim.resources.V2_NAME; (matters when the uri carries a validate directive, also a per-request one)
        knobs["dir_order_rev"] = rng.random() < 0.5
    if rec["property"] == "C18" and knobs.get("api") == "module" and rng.random() < 0.3:
        # (module-level API) an attempt to create a second named cache on the same directory
        nid = max([o["id"] for o in ops if isinstance(o["id"], int)] + [0]) + 1
        at = rng.randint(1, len(ops))
        if ops[at - 1]["op"] in ("FOREIGN", "EDIT_CONFIG") and at < len(ops) and ops[at]["op"] == "REOPEN":
            at += 1
        ops.insert(at, {"id": nid + 750, "op": "SAMEDIR", "dt": 1000, "spell": rng.randint(0, 3)})
    if rng.random() < 0.15 and not knobs.get("wide"):
        nid = max([o["id"] for o in ops if isinstance(o["id"], int)] + [0]) + 1
        for j in range(rng.randint(1, 3)):
            at = rng.randint(1, len(ops))
            if ops[at - 1]["op"] in ("FOREIGN", "EDIT_CONFIG") and at < len(ops) and ops[at]["op"] == "REOPEN":
                at += 1  # not between a pre-seeding / an edit and the reopen that belongs to it
            ops.insert(at, {"id": nid + 700 + j, "op": "SETDIR", "dt": rng.choice([0, 1000]),
                            "directive": rng.choice(["postprocess", "validate"]),
                            "what": rng.choice(["swap", "swap", "extra"]), "pick": rng.randint(0, 3)})


def generate(prop, seed, profile=None):
    profile = profile or {}
    rng = random.Random(mix(seed, "gen", prop))
    if "wide" not in profile and rng.random() < 0.015:
        # a few runs with one very wide request (more than 50 uris: every pool worker busy, tasks queueing)
        profile = dict(profile, wide=True, big_requests=True, length=rng.randint(2, 5))
    if prop == "C18" and "duplicates" not in profile and rng.random() < 0.05:
        profile = dict(profile, duplicates=True, big_requests=True, parallel=True)
    if "linkentry" not in profile and not profile.get("wide") and not profile.get("duplicates") and rng.random() < 0.04:
        profile = dict(profile, linkentry=True)
    if prop == "C19" and "zombie" not in profile and not profile.get("fault_free") and rng.random() < 0.22:
        profile = dict(profile, zombie=True, big_requests=True, parallel=True)
    knobs = gen_knobs(rng, prop, profile)
    ops = gen_ops(rng, prop, knobs, profile)
    if knobs.get("wide"):
        K = len(knobs["keys"])
        nid = max([o["id"] for o in ops if isinstance(o["id"], int)] + [0]) + 1
        at = rng.randint(0, len(ops))
        if 0 < at < len(ops) and ops[at - 1]["op"] == "FOREIGN" and ops[at - 1]["name"].startswith("linkentry:"):
            at += 1  # not between a pre-seeding and the reopen that belongs to it
        ops.insert(at, {"id": nid, "op": "GET", "keys": rng.sample(range(K), rng.randint(51, K)), "dt": 1000})
    rec = {"property": prop, "seed": seed, "knobs": knobs, "ops": ops, "faults": [], "crash": None, "clock_events": []}
    if knobs["clock"]["policy"] == "jumpy":
        for _ in range(rng.randint(1, 2)):
            op = rng.choice(ops)
            delta = rng.choice([-10**9, -60 * 10**9, -3600 * 10**9, -86400 * 10**9, 86400 * 10**9 * 5])
            rec["clock_events"].append({"op": op["id"], "at": rng.randint(0, 30), "delta": delta})
    if prop == "C18" and profile.get("duplicates") and len(knobs["keys"]) >= 7:
        duplicate_profile(rng, rec)
    if profile.get("linkentry"):
        linkentry_profile(rng, rec)
    if prop == "C19" and not profile.get("fault_free"):
        rec["faults"] = gen_faults(rng, knobs, ops)
        if profile.get("zombie") and len(knobs["keys"]) >= 6:
            if knobs["sched"]["policy"] == "none":
                knobs["sched"] = {"policy": "sticky", "p": 0.5}
            zombie_profile(rng, rec)
        if rng.random() < 0.35:
            rec["crash"] = gen_crash(rng, knobs, rec["ops"])
            if rng.random() < 0.3:
                rec["crash2"] = gen_second_crash(rng, knobs, rec["ops"], rec["crash"])
    mass_eviction_pass(random.Random(mix(seed, "mass-eviction", prop)), rec)
    odd_inputs_pass(random.Random(mix(seed, "odd-inputs", prop)), rec)
    directive_names_pass(random.Random(mix(seed, "directive-names", prop)), rec)
    if prop == "C19":
        second_fault_pass(random.Random(mix(seed, "second-faults", prop)), rec)
    return rec

#!/usr/bin/env python3
"""Re-verify every kept seeded change against the current /repo HEAD and the current checks.

For each /verif/seeded/<id>: make a scratch worktree of /repo HEAD under /tmp, apply patch.diff, run the
demonstration against the unchanged code (must pass) and against the changed code (must fail), run both
quick checks against the changed code (imported through OSU_SRC so that /repo itself stays untouched and
concurrent soak runs are not disturbed), update meta.json, remove the worktree.

  tools/seeded_recheck.py [id ...]
"""
import json
import os
import subprocess
import sys
import time

HERE = os.path.dirname(os.path.dirname(os.path.abspath(__file__)))
# VERIF_SNAPSHOT: run the checks from a frozen copy of /verif (so that /verif can be edited meanwhile)
SNAP = os.environ.get("VERIF_SNAPSHOT", HERE)


def sh(cmd, **kw):
    return subprocess.run(cmd, shell=True, capture_output=True, text=True, **kw)


def recheck(sid):
    d = os.path.join(HERE, "seeded", sid)
    meta = json.load(open(os.path.join(d, "meta.json")))
    wt = "/tmp/wt_re_%s" % sid
    sh("git -C /repo worktree remove --force %s" % wt)
    r = sh("git -C /repo worktree add --detach %s HEAD" % wt)
    out = {"repo_head": sh("git -C /repo log --format=%h -1").stdout.strip()}
    try:
        a = sh("git -C %s apply %s" % (wt, os.path.join(d, "patch.diff")))
        out["patch_applies"] = a.returncode == 0
        if a.returncode != 0:
            out["apply_error"] = a.stderr[-300:]
            return out
        demo = meta["demo"]

        def run_demo(srcdir):
            if demo.startswith("test_"):
                cmd = "cd %s && PYTHONPATH=%s /venv/bin/python -m pytest -q -p no:cacheprovider %s" % (wt, srcdir, os.path.join(d, demo))
            else:
                cmd = "cd %s && PYTHONPATH=%s /venv/bin/python %s" % (wt, srcdir, os.path.join(d, demo))
            p = sh(cmd, timeout=900)
            return p.returncode

        out["demo_unchanged_exit"] = run_demo("/repo/src")
        out["demo_changed_exit"] = run_demo(wt + "/src")
        checks = {}
        for prop in ("C18", "C19"):
            env = dict(os.environ, OSU_SRC=wt + "/src", VERIF_NO_EVIDENCE="1", VERIF_REPLAY_DIR="/tmp/seeded_replays_%s" % sid)
            t = time.time()
            q = subprocess.run(["/venv/bin/python", os.path.join(SNAP, "checks/run.py"), "--property", prop, "--tier", "quick",
                                "--no-selftests"], env=env, capture_output=True, text=True, timeout=3000, cwd=SNAP)
            viol = [ln for ln in q.stdout.splitlines() if ln.startswith("violation:")]
            checks[prop] = {"exit": q.returncode, "wall_s": round(time.time() - t, 1),
                            "clauses": sorted({v.split("clause ")[1].split(" ")[0] for v in viol}),
                            "first_violation": viol[0][:300] if viol else None}
        out["checks_quick"] = checks
        out["detected_by"] = [p for p, r in checks.items() if r["exit"] == 1]
        return out
    finally:
        sh("git -C /repo worktree remove --force %s" % wt)
        sh("rm -rf /tmp/seeded_replays_%s" % sid)


def adopt(wt, sid, prop):
    """--new <agent worktree> <id> <property>: take patch/demo/notes of a fresh sub-agent result into
    /verif/seeded/<id>/ (without touching /repo) so that it can be evaluated like the others"""
    import shutil
    dst = os.path.join(HERE, "seeded", sid)
    os.makedirs(dst, exist_ok=True)
    src = os.path.join(wt, "_seeded")
    for f in os.listdir(src):
        if f.endswith((".diff", ".py", ".md")):
            shutil.copy(os.path.join(src, f), os.path.join(dst, f))
    demos = [f for f in os.listdir(dst) if f.endswith(".py")]
    demo = sorted(demos, key=lambda f: (not f.startswith(("demo", "test_demo")), f))[0]
    # demonstrations sometimes assert that they run from the agent's own worktree: neutralise that
    text = open(os.path.join(dst, demo)).read()
    lines = []
    for ln in text.splitlines(True):
        if ln.lstrip().startswith("assert") and "__file__" in ln and "wt_s" in ln:
            ln = ln[:len(ln) - len(ln.lstrip())] + "pass  # (path assertion of the original demo removed so that it runs from any checkout)\n"
        lines.append(ln)
    open(os.path.join(dst, demo), "w").write("".join(lines))
    patch = open(os.path.join(dst, "patch.diff")).read()
    meta = {"id": sid, "property": prop, "demo": demo,
            "files_touched": sorted({ln[6:] for ln in patch.splitlines() if ln.startswith("+++ b/")})}
    json.dump(meta, open(os.path.join(dst, "meta.json"), "w"), indent=1)


def main():
    if len(sys.argv) >= 5 and sys.argv[1] == "--new":
        adopt(sys.argv[2], sys.argv[3], sys.argv[4])
        sys.argv = [sys.argv[0], sys.argv[3]]
    ids = sys.argv[1:] or sorted(os.listdir(os.path.join(HERE, "seeded")))
    for sid in ids:
        if not os.path.isdir(os.path.join(HERE, "seeded", sid)):
            continue
        r = recheck(sid)
        p = os.path.join(HERE, "seeded", sid, "meta.json")
        meta = json.load(open(p))
        meta["recheck"] = r
        json.dump(meta, open(p, "w"), indent=1)
        print(sid, r.get("repo_head"), "applies", r.get("patch_applies"), "demo", r.get("demo_unchanged_exit"), r.get("demo_changed_exit"),
              "detected_by", r.get("detected_by"), {k: v["clauses"] for k, v in (r.get("checks_quick") or {}).items()})
        sys.stdout.flush()


if __name__ == "__main__":
    main()

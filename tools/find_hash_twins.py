#!/usr/bin/env python3
"""Development-time search for pairs of object names whose uris ("sim://bucket/<name>") collide under an
ABBREVIATED hash: first / last 10 hex digits of md5, first 10 of sha1 / sha256, and full crc32 / adler32.
The pairs are written to gen/hash_twins.json; the generator puts one such pair into the uri alphabet of some
runs, so that "distinct uris never share a file" (18c) is also exercised against a cache that shortens or
weakens the hash of its file names (birthday search over ~3 million names, a minute of CPU)."""
import hashlib
import json
import os
import sys
import zlib

HERE = os.path.dirname(os.path.dirname(os.path.abspath(__file__)))
N = int(sys.argv[1]) if len(sys.argv) > 1 else 3_000_000


def uri(name):
    return ("sim://bucket/" + name).encode()


FUNCS = {
    "md5_first10": lambda b: hashlib.md5(b).hexdigest()[:10],
    "md5_last10": lambda b: hashlib.md5(b).hexdigest()[-10:],
    "sha1_first10": lambda b: hashlib.sha1(b).hexdigest()[:10],
    "sha256_first10": lambda b: hashlib.sha256(b).hexdigest()[:10],
    "crc32": lambda b: zlib.crc32(b),
    "adler32": lambda b: zlib.adler32(b),
}

out = {}
for fname, f in FUNCS.items():
    seen = {}
    for i in range(N):
        name = "t%d" % i
        h = f(uri(name))
        j = seen.get(h)
        if j is not None:
            out[fname] = [j, name]
            break
        seen[h] = name
    print(fname, out.get(fname))
json.dump(out, open(os.path.join(HERE, "gen", "hash_twins.json"), "w"), indent=1, sort_keys=True)

#!/usr/bin/env python3
"""Generates the mutation corpus /verif/mutants/*.patch from (file, old, new) specifications against the
current /repo working tree.  Every mutant keeps the package importable and the 52 existing tests green
(they never touch the file cache).  Re-run after a change to /repo's filecache sources."""
import difflib
import os
import sys

REPO = "/repo"
OUT = os.path.join(os.path.dirname(os.path.dirname(os.path.abspath(__file__))), "mutants")
CO = "src/ocean_science_utilities/filecache/cache_object.py"
RR = "src/ocean_science_utilities/filecache/remote_resources.py"
FC = "src/ocean_science_utilities/filecache/filecache.py"

# (name, property expected to catch it, file, old, new, what it needs to manifest)
M = [
 ("m01_no_touch_on_hit", "C18", CO,
  "            if _hash not in downloaded and self._is_in_cache(_hash):\n                self._get_from_cache(_hash)\n",
  "            if _hash not in downloaded and self._is_in_cache(_hash):\n                pass\n",
  "a hit followed by an eviction decision"),
 ("m02_evict_newest_first", "C18", CO, "sorted(modified, key=lambda x: x[0], reverse=True)", "sorted(modified, key=lambda x: x[0], reverse=False)",
  "an eviction with >= 2 candidates of different age"),
 ("m03_min_of_atime_mtime", "C18", CO, "access_time if access_time > modified_time else modified_time", "access_time if access_time < modified_time else modified_time",
  "atime != mtime (a user read under strict/relatime atime) before an eviction"),
 ("m04_evict_only_if_two_misses", "C18", CO, "        if not len(cache_misses) == 0:\n", "        if len(cache_misses) > 1:\n",
  "a single-miss request that overflows the cache"),
 ("m05_no_enlargement", "C18", CO, "        if size_of_requested_data > self.config.max_size_bytes:\n", "        if False and size_of_requested_data > self.config.max_size_bytes:\n",
  "a request larger than the configured size"),
 ("m06_prefix_test_dropped", "C18", CO, "                if file.startswith(self.CACHE_FILE_PREFIX)\n                and file.endswith(self.CACHE_FILE_POSTFIX)", "                if file.endswith(self.CACHE_FILE_POSTFIX)",
  "a foreign file whose name ends in _cachefile, then reopen"),
 ("m07_postfix_test_dropped", "C18", CO, "                if file.startswith(self.CACHE_FILE_PREFIX)\n                and file.endswith(self.CACHE_FILE_POSTFIX)", "                if file.startswith(self.CACHE_FILE_PREFIX)",
  "a foreign file whose name starts with cachefile_, then reopen"),
 ("m08_hash_without_comment", "C18", CO, "        return self.CACHE_FILE_PREFIX + _hashname(uri) + self.CACHE_FILE_POSTFIX", "        return self.CACHE_FILE_PREFIX + _hashname(uri.split(\"<<\")[0]) + self.CACHE_FILE_POSTFIX",
  "two keys naming one resource under different comments"),
 ("m09_comment_not_stripped", "C18", CO, "                uri_to_download = uri.split(\"<<\")[0]", "                uri_to_download = uri",
  "a key with a comment suffix"),
 ("m10_register_failed_download", "C19", CO, "                if success:\n                    self._add_to_cache", "                if success or True:\n                    self._add_to_cache",
  "a not-found fetch in tolerant mode, then a later request of that key"),
 ("m11_imap_unordered", "C19", CO, "pool.imap(_worker, cache_misses, chunksize=5)", "pool.imap_unordered(_worker, cache_misses, chunksize=5)",
  ">= 6 misses in parallel mode, second chunk finishing first, one not-found key"),
 ("m12_failed_path_removed_at_wrong_index", "C19", CO,
  "                    filepaths = [\n                        filepath\n                        for filepath in filepaths\n                        if filepath != cache_miss.filepath\n                    ]\n",
  "                    filepaths.pop()\n",
  "a not-found key that is not the last of its request"),
 ("m13_allow_missing_inverted", "C19", CO, "            if cache_miss.allow_for_missing_files:\n                warning = f\"Uri not retrieved", "            if not cache_miss.allow_for_missing_files:\n                warning = f\"Uri not retrieved",
  "a not-found fetch"),
 ("m14_validation_failure_ignored", "C19", CO, "                    if not valid_entry:\n                        # remove the locally stored entry if not valid (the", "                    if not valid_entry and False:\n                        # remove the locally stored entry if not valid (the",
  "a validator rejecting a cached entry"),
 ("m15_no_eviction_after_misses", "C18", CO, "            self._cache_eviction(\n                keep=[os.path.basename(filepath) for filepath in filepaths]\n            )\n", "            pass\n",
  "a request that overflows the cache"),
 ("m16_purge_leaves_files", "C18", CO, "            logger.debug(\" - deleting {filepath}\")\n            os.remove(filepath)\n", "            logger.debug(\" - deleting {filepath}\")\n",
  "a purge of a non-empty cache"),
 ("m17_remove_keeps_file", "C18", CO, "            # And delete file.\n            os.remove(file_to_delete)\n", "            # And delete file.\n            pass\n",
  "a remove or an eviction"),
 ("m18_no_adoption_on_open", "C18", CO, "        for file in self._get_cache_files():\n            filepath = os.path.join(self.path, file)\n            self._entries[file] = filepath\n", "        for file in self._get_cache_files():\n            filepath = os.path.join(self.path, file)\n",
  "reopen of a non-empty cache directory"),
 ("m19_write_at_final_path", "C19", CO, "        temporary_filepath = f\"{cache_miss.filepath}.{uuid.uuid4().hex}.part\"\n", "        temporary_filepath = cache_miss.filepath\n",
  "crash or exception part-way through a download, then reopen"),
 ("m20_shared_temp_name", "C19", CO, "        temporary_filepath = f\"{cache_miss.filepath}.{uuid.uuid4().hex}.part\"\n", "        temporary_filepath = f\"{cache_miss.filepath}.part\"\n",
  "a zombie pool worker still writing key k while a retry downloads k again"),
 ("m21_current_request_not_protected", "C18", CO, "            if keep is not None and _hash in keep:\n                continue\n", "            if keep is not None and _hash in keep:\n                pass\n",
  "time-stamp tie or backward clock step at an eviction"),
 ("m22_rejected_entry_stays_registered", "C19", CO, "                        self._remove_item_from_cache(hashkey)\n", "                        os.remove(filepath)\n",
  "validator rejection followed by a failing refetch, then another request"),
 ("m23_duplicates_fetched_twice", "C18", CO, "            if any(miss.filename == hashkey for miss in cache_misses):\n                continue\n", "            if any(miss.filename == hashkey for miss in cache_misses):\n                pass\n",
  "a duplicate post-processed uri in a parallel request of >= 6 misses with a particular interleaving"),
 ("m25_publish_before_postprocess", "C19", CO,
  "            cache_miss.post_process_function(temporary_filepath)\n            os.replace(temporary_filepath, cache_miss.filepath)\n",
  "            os.replace(temporary_filepath, cache_miss.filepath)\n            cache_miss.post_process_function(cache_miss.filepath)\n",
  "crash or exception in the post-processor, then reopen"),
 ("m26_touch_first_hit_only", "C18", CO,
  "            if _hash not in downloaded and self._is_in_cache(_hash):\n                self._get_from_cache(_hash)\n",
  "            if _hash not in downloaded and self._is_in_cache(_hash):\n                self._get_from_cache(_hash)\n                break\n",
  "a request with two hits"),
 ("m27_protect_misses_only", "C18", CO, "                keep=[os.path.basename(filepath) for filepath in filepaths]\n", "                keep=[cache_miss.filename for cache_miss in cache_misses]\n",
  "a request mixing a hit and a miss, eviction needed, time stamps tie"),
 ("m31_evict_one_file_per_request", "C18", CO,
  "        while (\n            _size := self._size()\n        ) > self.config.max_size_bytes and files_in_cache:\n",
  "        if (\n            _size := self._size()\n        ) > self.config.max_size_bytes and files_in_cache:\n",
  "a request that needs two or more evictions"),
 ("m37_delete_files_skips_removal", "C18", FC, "            cache.remove(key)\n", "            cache.in_cache(key)\n",
  "module-level delete_files"),
 ("m40_local_resource_moves_source", "C18", RR, "from shutil import copyfile\n", "from shutil import move as copyfile\n",
  "a file:// resource fetched twice (after eviction, or under two comments)"),
 ("m41_https_writes_text", "C18", RR, "                file.write(response.content)\n", "                file.write(response.text.encode(\"utf-8\"))\n",
  "an https resource with non-ascii bytes"),
 ("m42_size_counts_only_requested", "C18", CO, "        if not self._size() > self.config.max_size_bytes:\n            return False\n", "        if keep is not None and not _get_total_size_of_files_in_bytes(keep, self.path) > self.config.max_size_bytes:\n            return False\n",
  "a request that fits by itself while the whole cache does not"),
 ("m43_eviction_stops_one_short", "C18", CO,
  "        ) > self.config.max_size_bytes and files_in_cache:\n",
  "        ) > self.config.max_size_bytes and len(files_in_cache) > 1:\n",
  "an eviction that has to remove every other file"),
 ("m44_config_write_truncates_size", "C18", CO, "                        \"size_gb\": self.size_gb,\n", "                        \"size_gb\": round(self.size_gb, 6),\n",
  "a cache size below 1000 bytes, then reopen"),
 ("m45_tmp_cleanup_removes_final", "C19", CO,
  "            if os.path.exists(temporary_filepath):\n                os.remove(temporary_filepath)\n",
  "            if os.path.exists(temporary_filepath):\n                os.remove(temporary_filepath)\n                if os.path.exists(cache_miss.filepath):\n                    os.remove(cache_miss.filepath)\n",
  "a failing refetch of a key that a zombie/other path had completed, or failure after a validator rejection"),
 ("m46_pool_worker_exceptions_swallowed", "C19", CO,
  "        except _RemoteResourceUriNotFound as e:\n            if cache_miss.allow_for_missing_files:",
  "        except OSError:\n            return True\n        except _RemoteResourceUriNotFound as e:\n            if cache_miss.allow_for_missing_files:",
  "an OSError (EIO/ENOSPC/EMFILE) during the download"),
 ("m47_allow_missing_setter_without_effect", "C19", CO,
  "        self._update_config(\"_allow_for_missing_files\", allow_for_missing_files)",
  "        self._update_config(\"_allow_missing_files\", allow_for_missing_files)",
  "the caller switches config.allow_for_missing_files on the running cache, then a not-found fetch"),
 ("m48_size_setter_memory_only", "C18", CO,
  "        self._update_config(\"size_gb\", size_bytes / GIGABYTE)",
  "        self._update_config(\"size_gb\", size_bytes / GIGABYTE, write=False)",
  "the limit is enlarged (by a request or by the caller), no eviction back under the old limit, reopen"),
]


# Behaviour-preserving refactorings: every check must stay silent on these (false-alarm regression corpus).
BENIGN = [
 ("b01_sha1_file_names", CO, [("return hashlib.md5(string.encode(), usedforsecurity=False).hexdigest()",
                               "return hashlib.sha1(string.encode(), usedforsecurity=False).hexdigest()")]),
 ("b02_mkstemp_temporaries_minimal_enlargement", CO, [
     ("        temporary_filepath = f\"{cache_miss.filepath}.{uuid.uuid4().hex}.part\"\n",
      "        import tempfile\n        _fd, temporary_filepath = tempfile.mkstemp(\n            dir=os.path.dirname(cache_miss.filepath), prefix=\"dl-\", suffix=\".tmp\"\n        )\n        os.close(_fd)\n"),
     ("            self.config.max_size_bytes = size_of_requested_data + MEGABYTE", "            self.config.max_size_bytes = size_of_requested_data + 1")]),
 ("b03_thread_pool_executor", CO, [
     ("        with ThreadPool(processes=MAXIMUM_NUMBER_OF_WORKERS) as pool:\n            output = list(\n                tqdm(\n                    pool.imap(_worker, cache_misses, chunksize=5),",
      "        from concurrent.futures import ThreadPoolExecutor\n\n        with ThreadPoolExecutor(max_workers=MAXIMUM_NUMBER_OF_WORKERS) as pool:\n            output = list(\n                tqdm(\n                    pool.map(_worker, cache_misses),")]),
 ("b04_touch_everything_returned_and_constructor_size_wins", CO, [
     ("            if _hash not in downloaded and self._is_in_cache(_hash):\n                self._get_from_cache(_hash)\n",
      "            if self._is_in_cache(_hash):\n                self._get_from_cache(_hash)\n"),
     ("        if self.config_exists():\n            self.load_config()\n        else:\n            self._write_config()\n",
      "        # the constructor arguments win over a persisted configuration (and replace it)\n        self._write_config()\n")]),
 ("b05_https_streamed_from_raw_with_decoding", RR, [
     ("                response = requests.api.get(uri, allow_redirects=True)\n",
      "                response = requests.api.get(uri, allow_redirects=True, stream=True)\n"),
     ("                file.write(response.content)\n",
      "                import shutil\n\n                response.raw.decode_content = True\n                shutil.copyfileobj(response.raw, file)\n")]),
 ("b06_locks_around_registration_and_download_bookkeeping", CO, [
     ("import uuid\n", "import threading\nimport uuid\n"),
     ("MEGABYTE = 1000 * KILOBYTE\n", "MEGABYTE = 1000 * KILOBYTE\n_REGISTRY_LOCK = threading.RLock()\n_STARTED = threading.Event()\n"),
     ("        if cache_misses := self.get_cache_misses(uris, directives):\n            was_succesfully_downloaded = _download_from_resources(",
      "        with _REGISTRY_LOCK:\n            cache_misses = self.get_cache_misses(uris, directives)\n        if cache_misses:\n            was_succesfully_downloaded = _download_from_resources("),
     ("        temporary_filepath = f\"{cache_miss.filepath}.{uuid.uuid4().hex}.part\"\n",
      "        _STARTED.set()\n        _gate = threading.Semaphore(1)\n        with _gate, _REGISTRY_LOCK:\n            _known = os.path.exists(cache_miss.filepath)\n        _STARTED.wait(timeout=5)\n        temporary_filepath = f\"{cache_miss.filepath}.{uuid.uuid4().hex}.part\"\n")]),
]


def write_benign():
    out = os.path.join(os.path.dirname(OUT), "benign")
    os.makedirs(out, exist_ok=True)
    generated = {name for name, _rel, _edits in BENIGN}
    for f in os.listdir(out):
        # (b07.. were written by sub-agents, not generated from a specification: they stay)
        if f.endswith(".patch") and f[:-6] in generated:
            os.remove(os.path.join(out, f))
    bad = 0
    for name, rel, edits in BENIGN:
        src = open(os.path.join(REPO, rel)).read()
        mut = src
        for old, new in edits:
            if mut.count(old) != 1:
                print("BENIGN SPEC ERROR %s: pattern occurs %d times: %r" % (name, mut.count(old), old[:50]))
                bad += 1
                continue
            mut = mut.replace(old, new)
        diff = "".join(difflib.unified_diff(src.splitlines(True), mut.splitlines(True), "a/" + rel, "b/" + rel))
        with open(os.path.join(out, name + ".patch"), "w") as f:
            f.write(diff)
    print("%d benign variants written, %d spec errors" % (len(BENIGN), bad))
    return bad


def main():
    write_benign()
    os.makedirs(OUT, exist_ok=True)
    for f in os.listdir(OUT):
        if f.endswith(".patch"):
            os.remove(os.path.join(OUT, f))
    index = []
    bad = 0
    for name, prop, rel, old, new, needs in M:
        src = open(os.path.join(REPO, rel)).read()
        if src.count(old) != 1:
            print("SPEC ERROR %s: pattern occurs %d times" % (name, src.count(old)))
            bad += 1
            continue
        mut = src.replace(old, new)
        diff = "".join(difflib.unified_diff(src.splitlines(True), mut.splitlines(True), "a/" + rel, "b/" + rel))
        with open(os.path.join(OUT, name + ".patch"), "w") as f:
            f.write(diff)
        index.append({"name": name, "property": prop, "needs": needs})
    import json
    with open(os.path.join(OUT, "INDEX.json"), "w") as f:
        json.dump(index, f, indent=1)
    print("%d mutants written, %d spec errors" % (len(index), bad))
    return 1 if bad else 0


if __name__ == "__main__":
    sys.exit(main())

#!/usr/bin/env python3
"""Sensitivity test: applies each patch of /verif/mutants to a scratch copy of /repo/src (outside /repo and
/verif, removed afterwards), runs the quick checks against it (OSU_SRC) and records which check catches it.

  tools/mutation_run.py [--only name-substring] [--runs N] [--jobs J] [--patch file --property C18]
"""
import argparse
import json
import os
import shutil
import subprocess
import sys
import tempfile
import time

HERE = os.path.dirname(os.path.dirname(os.path.abspath(__file__)))
MUT = os.path.join(HERE, "mutants")
# VERIF_SNAPSHOT: run the checks from a frozen copy of /verif (so that /verif can be edited meanwhile)
SNAP = os.environ.get("VERIF_SNAPSHOT", HERE)


def run_one(patch, props, runs, workers, budget=None):
    scratch = tempfile.mkdtemp(prefix="osu_mut_", dir="/tmp")
    try:
        shutil.copytree("/repo/src", os.path.join(scratch, "src"), ignore=shutil.ignore_patterns("__pycache__"))
        p = subprocess.run(["patch", "-p1", "-s", "-d", scratch, "-i", patch], capture_output=True, text=True)
        if p.returncode != 0:
            return {"error": "patch failed: " + p.stdout + p.stderr}
        out = {}
        for prop in props:
            env = dict(os.environ, OSU_SRC=os.path.join(scratch, "src"), VERIF_RUNS=str(runs), VERIF_WORKERS=str(workers),
                       VERIF_NO_EVIDENCE="1", VERIF_REPLAY_DIR=os.path.join(scratch, "replays"))
            t = time.time()
            q = subprocess.run(["/venv/bin/python", os.path.join(SNAP, "checks/run.py"), "--property", prop, "--tier", "quick",
                                "--no-selftests"], env=env, capture_output=True, text=True, timeout=1800, cwd=SNAP)
            clauses = sorted({ln.split("clause ")[1].split(" ")[0] for ln in q.stdout.splitlines() if ln.startswith("violation: clause ")})
            out[prop] = {"exit": q.returncode, "clauses": clauses, "wall_s": round(time.time() - t, 1),
                         "first": next((ln for ln in q.stdout.splitlines() if ln.startswith("violation:")), "")[:300]}
            if q.returncode not in (0, 1):
                out[prop]["tail"] = (q.stdout + q.stderr)[-1500:]
        return out
    finally:
        shutil.rmtree(scratch, ignore_errors=True)


def main():
    ap = argparse.ArgumentParser()
    ap.add_argument("--only", default="")
    ap.add_argument("--runs", type=int, default=6000)
    ap.add_argument("--jobs", type=int, default=4)
    ap.add_argument("--benign", action="store_true")
    ap.add_argument("--patch")
    ap.add_argument("--property", default="")
    args = ap.parse_args()
    if args.patch:
        props = [args.property] if args.property else ["C18", "C19"]
        print(json.dumps(run_one(os.path.abspath(args.patch), props, args.runs, 16), indent=1))
        return 0
    if args.benign:
        bdir = os.path.join(HERE, "benign")
        res = {}
        for f in sorted(os.listdir(bdir)):
            if f.endswith(".patch") and args.only in f:
                r = run_one(os.path.join(bdir, f), ["C18", "C19"], args.runs, 16)
                res[f] = r
                print("%-60s %s" % (f, {p: (r[p]["exit"], r[p]["clauses"]) for p in r if isinstance(r[p], dict)}))
                sys.stdout.flush()
        json.dump(res, open(os.path.join(bdir, "RESULTS.json"), "w"), indent=1, sort_keys=True)
        alarms = [f for f, r in res.items() if any(isinstance(v, dict) and v["exit"] != 0 for v in r.values())]
        print("%d benign variants, alarms on: %s" % (len(res), alarms))
        return 1 if alarms else 0
    index = json.load(open(os.path.join(MUT, "INDEX.json")))
    todo = [m for m in index if args.only in m["name"]]
    import concurrent.futures as cf
    results = {}
    workers = max(1, 16 // args.jobs)
    with cf.ThreadPoolExecutor(args.jobs) as ex:
        futs = {ex.submit(run_one, os.path.join(MUT, m["name"] + ".patch"), ["C18", "C19"], args.runs, workers): m for m in todo}
        for f in cf.as_completed(futs):
            m = futs[f]
            r = f.result()
            results[m["name"]] = r
            caught = [p for p in ("C18", "C19") if isinstance(r.get(p), dict) and r[p]["exit"] == 1]
            print("%-42s expected %s caught by %s %s" % (m["name"], m["property"], caught or "NOBODY",
                                                        {p: r[p]["clauses"] for p in caught} if caught else r))
            sys.stdout.flush()
    path = os.path.join(MUT, "RESULTS.json")
    old = {}
    if os.path.exists(path) and args.only:
        old = json.load(open(path))
    old.update(results)
    with open(path, "w") as f:
        json.dump(old, f, indent=1, sort_keys=True)
    missed = [n for n, r in results.items() if not any(isinstance(r.get(p), dict) and r[p]["exit"] == 1 for p in ("C18", "C19"))]
    print("%d mutants, %d caught, missed: %s" % (len(results), len(results) - len(missed), missed))
    return 0


if __name__ == "__main__":
    sys.exit(main())

#!/usr/bin/env python3
"""Evaluate one seeded change produced by a sub-agent.

  tools/seeded_eval.py <worktree> <id> <property> [--suite]

1. copies <worktree>/_seeded/{patch.diff,demo*,NOTES.md} to /verif/seeded/<id>/
2. confirms the demonstration passes on the unchanged code (/repo/src) and fails with the change (<worktree>/src)
3. applies the patch to /repo (git apply), runs both quick checks, and undoes it (git checkout -- .)
4. optionally (--suite) runs the repository's test suite inside the worktree with the change applied
5. writes meta.json
"""
import glob
import json
import os
import shutil
import subprocess
import sys
import time

HERE = os.path.dirname(os.path.dirname(os.path.abspath(__file__)))


def sh(cmd, **kw):
    return subprocess.run(cmd, shell=True, capture_output=True, text=True, **kw)


def main():
    wt, sid, prop = sys.argv[1], sys.argv[2], sys.argv[3]
    suite = "--suite" in sys.argv
    dst = os.path.join(HERE, "seeded", sid)
    os.makedirs(dst, exist_ok=True)
    src = os.path.join(wt, "_seeded")
    for f in os.listdir(src):
        if f.endswith((".diff", ".py", ".md")):
            shutil.copy(os.path.join(src, f), os.path.join(dst, f))
    demos = [f for f in os.listdir(dst) if f.endswith(".py")]
    demo = sorted(demos, key=lambda f: (not f.startswith(("demo", "test_demo")), f))[0]
    meta = {"id": sid, "property": prop, "demo": demo}
    # the patch must be what is applied in the worktree
    d = sh("git -C %s diff -- src" % wt).stdout
    patch = open(os.path.join(dst, "patch.diff")).read()
    chk = sh("git -C /repo apply --check %s" % os.path.join(dst, "patch.diff"))
    meta["patch_applies_to_repo_head"] = chk.returncode == 0
    if chk.returncode != 0:
        meta["apply_error"] = chk.stderr[-500:]
    meta["files_touched"] = sorted({ln[6:] for ln in patch.splitlines() if ln.startswith("+++ b/")})

    def run_demo(srcdir):
        if demo.startswith("test_"):
            cmd = "cd %s && PYTHONPATH=%s /venv/bin/python -m pytest -q -p no:cacheprovider %s" % (wt, srcdir, os.path.join(dst, demo))
        else:
            cmd = "cd %s && PYTHONPATH=%s /venv/bin/python %s" % (wt, srcdir, os.path.join(dst, demo))
        p = sh(cmd, timeout=600)
        return p.returncode, (p.stdout + p.stderr)[-600:]

    rc0, out0 = run_demo("/repo/src")
    rc1, out1 = run_demo(os.path.join(wt, "src"))
    meta["demo_unchanged_exit"] = rc0
    meta["demo_changed_exit"] = rc1
    meta["demo_changed_tail"] = out1[-300:]
    meta["demo_confirms"] = rc0 == 0 and rc1 != 0
    # our checks against the change applied to /repo itself
    checks = {}
    if meta["patch_applies_to_repo_head"]:
        st = sh("git -C /repo status --porcelain").stdout.strip()
        if st:
            print("refusing: /repo has local changes:\n" + st)
            return 2
        via_src = os.environ.get("SEEDED_EVAL_VIA") == "osu_src"  # while a background soak is using /repo itself
        meta["evaluated_via"] = "OSU_SRC=<worktree>/src" if via_src else "git -C /repo apply"
        try:
            if not via_src:
                sh("git -C /repo apply %s" % os.path.join(dst, "patch.diff"))
            for p in ("C18", "C19"):
                env = dict(os.environ, VERIF_NO_EVIDENCE="1", VERIF_REPLAY_DIR="/tmp/seeded_replays_%s" % sid)
                if via_src:
                    env["OSU_SRC"] = os.path.join(wt, "src")
                t = time.time()
                q = subprocess.run(["/venv/bin/python", os.path.join(HERE, "checks/run.py"), "--property", p, "--tier", "quick",
                                    "--no-selftests"], env=env, capture_output=True, text=True, timeout=3000, cwd=HERE)
                viol = [ln for ln in q.stdout.splitlines() if ln.startswith("violation:")]
                checks[p] = {"exit": q.returncode, "wall_s": round(time.time() - t, 1),
                             "clauses": sorted({v.split("clause ")[1].split(" ")[0] for v in viol}),
                             "first_violation": viol[0][:400] if viol else None}
                if q.returncode not in (0, 1):
                    checks[p]["tail"] = (q.stdout + q.stderr)[-800:]
        finally:
            if not via_src:
                sh("git -C /repo checkout -- .")
            shutil.rmtree("/tmp/seeded_replays_%s" % sid, ignore_errors=True)
    meta["checks_quick"] = checks
    meta["detected_by"] = [p for p, r in checks.items() if r["exit"] == 1]
    if suite:
        t = time.time()
        q = sh("cd %s && PYTHONPATH=%s/src /venv/bin/python -m pytest -q -p no:cacheprovider --timeout=900 --continue-on-collection-errors tests 2>&1 | tail -3" % (wt, wt), timeout=3000)
        meta["suite_tail"] = q.stdout.strip().splitlines()[-1:] if q.stdout.strip() else []
        meta["suite_wall_s"] = round(time.time() - t, 1)
    with open(os.path.join(dst, "meta.json"), "w") as f:
        json.dump(meta, f, indent=1)
    print(json.dumps(meta, indent=1))
    return 0


if __name__ == "__main__":
    sys.exit(main())

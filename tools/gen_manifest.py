#!/usr/bin/env python3
"""Regenerates /verif/MANIFEST.json (kept as a script so that the 18 not-applicable
reasons and the two claimed checks stay in one reviewable place)."""
import json, os, sys

HERE = os.path.dirname(os.path.dirname(os.path.abspath(__file__)))

NA = {
 "C01": "pure function of (spectrum, band, power): no schedule, clock, fault, I/O or shared state for a simulator to own; deterministic simulation does not apply (DESIGN §12)",
 "C02": "pure quadrature over the direction axis; nothing schedule-, time- or fault-dependent (DESIGN §12)",
 "C03": "pure trigonometric definitions and a symmetry relation between two inputs; input-only (DESIGN §12)",
 "C04": "pure argmax plus dispersion solve per element; input-only (DESIGN §12)",
 "C05": "pure; mem2 is compiled with _PARALLEL=False so even prange is sequential; the Cholesky/least-squares fallback is reached by inputs, not faults (DESIGN §12)",
 "C06": "pure; solver agreement and the Jacobian identity are relations between inputs and outputs only (DESIGN §12)",
 "C07": "pure Newton iteration with a fixed iteration cap; no time-outs or clocks (DESIGN §12)",
 "C08": "pure per input; the only concurrency is numba's native prange work queue, which no Python-level seam can schedule; disabling JIT removes rather than controls it (DESIGN §12)",
 "C09": "metamorphic relation between two inputs of pure functions; no interleaving or fault involved (DESIGN §12)",
 "C10": "pure implicit-equation solvers bounded by iteration counts, not by clocks (DESIGN §12)",
 "C11": "pure root finding; batch parallelism is numba-native prange that cannot be put behind a seam (DESIGN §12)",
 "C12": "pure closed form (DESIGN §12)",
 "C13": "pure interpolation (DESIGN §12)",
 "C14": "pure interpolation on a circle (DESIGN §12)",
 "C15": "sequential deterministic object algebra; aliasing between objects is not shared state between threads or incarnations, and the netCDF round trip promises nothing about interrupted saves; a history here is a structured input (DESIGN §12)",
 "C16": "randomness already sits behind an explicit seed feeding a call-local default_rng; given the seed the function is pure (DESIGN §12)",
 "C17": "pure conversions; HEAD never reads the host clock or time zone, so there is no clock seam for the property to depend on (DESIGN §12)",
 "C20": "exact-arithmetic statement about a finite stencil table plus pure array code (DESIGN §12)",
}

def check(pid, text, note):
    run = "timeout -k 10 {t} /venv/bin/python checks/run.py --property %s --tier {tier}" % pid
    return {
        "property_id": pid,
        "quick_cmd": run.format(t=900, tier="quick"),
        "thorough_cmd": run.format(t=5400, tier="thorough"),
        "evidence_file": "/verif/evidence/%s.json" % pid,
        "replay_cmd_template": "/venv/bin/python checks/run.py --replay {path}",
        "engine": "osu-dst",
        "level_claimed": {"category": "exploration", "text": text, "design_ref": "DESIGN.md §5-§7"},
        "level_note": note,
        "technique": "deterministic simulation with fault injection: seeded search over request histories x thread schedules x clock behaviours x faults/crash points, real FileCache code on simulated fs/net/pool/clock, reference-model oracle, ddmin-minimised replay files",
    }

def build(with_checks=True):
    m = {
        "version": 1,
        "setup_cmd": "cd /verif && /venv/bin/python selftest/setup_check.py",
        "hooks": {
            "guard": "OSU_VERIF_SIM",
            "enable": "none needed: all seams are cut at run time from /verif by replacing os/builtins.open/ThreadPool/requests/tqdm attributes (sim/interpose.py); checks import ocean_science_utilities from /repo/src",
            "baseline_off_cmd": "cd /repo && /venv/bin/python -m pytest -ra -q -p no:cacheprovider --timeout=900 --continue-on-collection-errors",
            "source_commits": [],
            "add_only": True,
        },
        "engines": [{
            "name": "osu-dst",
            "path": "/verif/sim",
            "serves_properties": ["C18", "C19"],
            "kind_free_text": "single-process deterministic simulator: in-memory POSIX-like file system behind os/open, baton-passing thread scheduler, simulated clock, ThreadPool stub, HTTP stub, seeded workload/fault generator, reference model, ddmin shrinker, JSON replay",
        }],
        "checks": [],
        "not_applicable": [{"property_id": k, "reason": v} for k, v in sorted(NA.items())],
        "notes": "Technique under study: deterministic simulation with fault injection. Only the file cache (C18, C19) has schedules, clocks, faults or crash points; the other 18 properties are pure functions of their inputs and are answered not-applicable with reasons (DESIGN.md §0, §12).",
    }
    if with_checks:
        m["checks"] = [
            check("C18",
                  "Seeded exploration, about 51 000 simulated runs per quick invocation: (1) every operation history of up to three operations over a 12-operation alphabet x 4 size limits x 2 clock policies x 2 download modes (30 144 runs, exhaustive for that small scope); (2) 9 000 seeded random histories (get/remove/purge/reopen/touch/age/user-read/foreign files and symbolic links/edit-config/settings changed on the running cache through the config properties/remote update/chdir, several named directive functions managed mid-session, 1-95 uris incl. pairs that collide under an abbreviated hash or differ only in letter case of the bucket, duplicate and wide requests, mass evictions of more than 64 entries in one pass, cache entries pre-seeded as symbolic links), each run in both download modes under a seeded thread scheduler (sticky/uniform/PCT/straggler, optional line-level pre-emption), four clock policies incl. ties and backward steps, time zones, a skew between the process clock and the clock stamping files, relative/~/odd cache paths, a cache directory behind a symbolic link, module-level and object API; (3) clock sweeps of 56 histories; (4) 1 500 further seeded histories in an interpreter started with -O (asserts compiled out of the code under test). Every operation is checked against an executable reference model: content, hit-without-fetch, injectivity, entry count, size bound and config consistency, LRU relation and recency refresh, foreign files, a second named cache, mode equivalence. Sampling outside the small scope, not proof.",
                  "Trusted: the simulator (SimFS POSIX model incl. symbolic links, validated differentially against the host fs in every run; SimPool validated against multiprocessing.pool.ThreadPool), the reference model, CPython. Stubs: thread pool / executor / threads and synchronisation primitives (validated against threading and queue), clock, HTTP server (content, streamed, raw, gzip, with or without Content-Length, Session/head/request), object stores, tqdm. Real: all of ocean_science_utilities.filecache, shutil, os.path, os.walk, pathlib, tempfile, json, io buffering. Out of scope: concurrent callers of one cache object, two processes on one directory, power loss."),
            check("C19",
                  "Seeded exploration plus systematic fault enumeration, about 36 000 simulated runs per quick invocation: (1) every history of up to two operations over 7 operations on 4 keys (sim/file/https, post-process, validate) x 2 limits x tolerant/strict, each re-run with EVERY mutating file-system event as a crash point (plus torn-write variants) and EVERY applicable single fault at every download position (about 12 500 runs); (2) 9 000 seeded random histories with 0-4 faults out of 33 kinds (not-found before/after partial write, exceptions before/mid/after, returned False, StopIteration, KeyboardInterrupt, HTTP 404/5xx/drop/timeouts also persistent, EIO/ENOSPC/short write/EMFILE/rename failure/refused deletion/disk full, post-processor failures incl. its own not-found, of varying exception classes, validator failures and crashes, several named post-processors and validators, the tolerance setting switched mid-session, HTTP statuses 404/410/403/401/5xx/429), one or two process crashes per history with torn writes followed by reopen (the second crash while reopening or in the retry), zombie pool workers incl. slow stragglers whose late attempts fail; (3) crash/fault/zombie-schedule sweeps of 56 random histories; (4) 1 500 further seeded histories in an interpreter started with -O. After every history every key is probed in the same session and after a reopen. Oracle: outcome (omit or raise), every served path holds complete correct bytes, bystanders intact, retry refetches, rejected entries are never served, validators are consulted, what the cache has registered stays within the size in force across a request.",
                  "Trusted: as for C18, plus the crash model (process crash, OS survives: applied writes are durable, user-space buffers are lost; power loss not modelled) and the fault vocabulary of DESIGN sections 6 and 15."),
        ]
    return m

if __name__ == "__main__":
    with_checks = "--no-checks" not in sys.argv
    with open(os.path.join(HERE, "MANIFEST.json"), "w") as f:
        json.dump(build(with_checks), f, indent=1)
        f.write("\n")

"""Reference model + oracle for C18 (fault-free histories) and C19 (faults, crashes, zombies).

The oracle is evaluated after every operation on an observation record produced by sim/world.py.
It follows the "observe - validate - adopt" scheme: where the property leaves the implementation a
choice (which of two tied files to evict, whether an orphaned complete file is adopted or fetched
again) the observation is validated against the constraints and the model then adopts it.

A violation is a tuple (property, clause, message, op_id).
"""
import posixpath


FAILING = {"NOTFOUND", "ERR_BEFORE", "ERR_MID", "ERR_AFTER", "HTTP_404", "HTTP_5XX", "CONN_ERR", "TIMEOUT",
           "EIO", "ENOSPC", "EMFILE", "SRC_MISSING", "PP_ERR_BEFORE", "PP_ERR_MID", "PP_ERR_AFTER", "PP_NOTFOUND", "PP_NOTFOUND_AFTER", "RENAME_EIO", "UNLINK_EACCES",
           "RET_FALSE_BEFORE", "RET_FALSE_MID", "INTERRUPT_MID", "PP_INTERRUPT_MID", "ERR_STOPITER", "VALIDATE_RAISE", "DISK_FULL", "NOTFOUND_MID", "HTTP_DROP_MID"}
NOTFOUND_KINDS = {"NOTFOUND", "HTTP_404", "SRC_MISSING", "NOTFOUND_MID"}
FS_KINDS = {"EIO", "ENOSPC", "SHORT_WRITE", "EMFILE", "SRC_MISSING", "RENAME_EIO", "DISK_FULL", "UNLINK_EACCES"}


def _scheme_of_fault(kind):
    """which download stub fires this kind (None: any - file system faults hit whatever is being written)"""
    if kind in ("HTTP_404", "HTTP_5XX", "CONN_ERR", "TIMEOUT", "HTTP_DROP_MID"):
        return "https"
    if kind == "SRC_MISSING":
        return "file"
    if kind in ("NOTFOUND", "ERR_BEFORE", "ERR_MID", "ERR_AFTER", "RET_FALSE_BEFORE", "RET_FALSE_MID", "ERR_STOPITER",
                "NOTFOUND_MID", "INTERRUPT_MID"):
        return "sim"
    return None


def is_cache_name(name):
    return name.startswith("cachefile_") and name.endswith("_cachefile")


def cache_files(snap, cache_dir):
    """{path: (size, atime, mtime, bytes, ino, gen)} for cache-pattern regular files directly in the cache dir."""
    out = {}
    for p, (kind, size, at, mt, data, ino, gen) in snap.items():
        if kind == "f" and posixpath.dirname(p) == cache_dir and is_cache_name(posixpath.basename(p)):
            out[p] = (size, at, mt, data, ino, gen)
    return out


def w_is_module(w):
    return w.knobs.get("api", "object") == "module"


def stamp(entry):
    return max(entry[1], entry[2])


def fstamp(ns):
    """Recency as an implementation can observe it through os.stat / os.path.getmtime: float seconds.
    Two stamps closer than float resolution (~0.2 us in this epoch) are a tie, and ties are free."""
    return ns / 1e9


class Oracle:
    def __init__(self, world):
        self.w = world
        self.prop = world.prop
        self.cd = world.cache_dir
        self.c19 = self.prop == "C19"
        self.registered = None  # set of keys, None while no cache object exists
        self.path_seen = {}
        self.owner_of_path = {}
        self.max_bytes = None
        self.persisted_max = None
        self.persisted_alt = None  # a second candidate for the persisted size (external edit vs. a setter's rewrite)
        # values the 'tolerate missing files' setting may have: the constructor argument, or what an earlier
        # process persisted (either may win on reopen); exactly one value right after the caller set it
        self.allow_ctor = world.knobs.get("allow_missing", True) if world.knobs.get("api", "object") == "object" else True
        self.allow_opts = {self.allow_ctor}
        self.volatile = set()  # keys a zombie worker may still be writing
        self.tainted = False  # some fault/crash happened earlier in this run (C19)
        self.pending_retry = set()  # keys whose last fetch failed (19d)
        self.rejected_unfetched = set()  # keys rejected by the validator whose refetch failed (19e)
        self.rejected_since = {}  # key -> {"bytes": the rejected file content, "zombie": a zombie ran since}
        self.ended = False
        self.probes = world.stats["probes"]
        self.foreign = {}  # path -> (mtime, bytes) of files created by the user in the cache directory

    # ------------------------------------------------------------------ util
    def k_of(self, path):
        """key owning a cache file: learned from returned paths; documented naming as fallback"""
        k = self.owner_of_path.get(path)
        return k if k is not None else self.w.key_of_path.get(path)

    def p_of(self, key):
        return self.path_seen.get(key) or self.w.path_of_key.get(key)

    def _v(self, clause, msg, obs):
        prop = "C19" if self.c19 else "C18"
        return (prop, clause, msg, obs.op["id"])

    def probe(self, name, n=1):
        self.probes[name] = self.probes.get(name, 0) + n

    def _res(self, key):
        return self.w.keys[key]["res"]

    def _foreign_check(self, obs):
        """18g: files the user put into the cache directory (FOREIGN operations) that are not cache files
        must never be modified or deleted.  Files the cache itself creates (config, temporaries) are its own."""
        if obs.kind == "FOREIGN" and not obs.crashed:
            p = obs.foreign_path or (self.cd + "/" + obs.op["name"])
            ent = obs.post.get(p)
            if ent is not None and ent[0] in ("f", "l") and p not in self.foreign:
                # (a symbolic link of the user's is tracked by its own text and stamp, not by what it points at)
                self.foreign[p] = (None if getattr(obs, "foreign_bytes_only", False) else ent[3], ent[4])
            return None
        for p, (mt, data) in self.foreign.items():
            ent = obs.post.get(p)
            clause = "18g" if not self.c19 else "19c-foreign"
            if ent is None:
                return self._v(clause, "foreign file %s was deleted" % p, obs)
            if ent[4] != data or (mt is not None and ent[3] != mt):
                return self._v(clause, "foreign file %s was modified" % p, obs)
        return None

    def _other_cache_check(self, obs):
        """two named caches of one process must not touch each other's directory"""
        if obs.other_pre is None or obs.crashed or obs.busy_before or obs.busy_after:
            return None
        w = self.w
        clause = "19c-other-cache" if self.c19 else "18g-other-cache"
        if obs.kind == "OTHER_GET":
            if obs.exc is None:
                a = {p: (e[0], e[1], e[4]) for p, e in obs.pre.items()}
                b = {p: (e[0], e[1], e[4]) for p, e in obs.post.items()}
                if a != b:
                    return self._v(clause, "a request to the second named cache changed the first cache's directory", obs)
                if isinstance(obs.result, list):
                    for p in obs.result:
                        if not (isinstance(p, str) and p.startswith("/SIMFS/othercache/")):
                            return self._v(clause, "the second named cache returned a path outside its own directory: %r" % (p,), obs)
            return None
        if obs.kind in ("OPEN", "REOPEN", "PURGE"):
            return None  # (re)creation of the caches writes the second cache's config
        if obs.kind == "GET" and any(w.keys[k]["scheme"] == "chain" for k in obs.op["keys"]):
            return None  # chained keys are fetched through the second cache
        if obs.other_pre != obs.other_post:
            return self._v(clause, "an operation on the first cache changed the second named cache's directory", obs)
        return None

    # ----------------------------------------------------------------- entry
    def check(self, obs):
        if self.ended:
            return None
        if obs.observe_error is not None:
            return self._v("18d" if not self.c19 else "19c", "in_cache()/len() raised %r" % (obs.observe_error,), obs)
        kind = obs.kind
        if obs.busy_before == 0 and self.volatile:
            self.volatile = set()
        v = self._foreign_check(obs)
        if v:
            return v
        v = self._other_cache_check(obs)
        if v:
            return v
        if kind in ("OPEN", "REOPEN"):
            return self._check_open(obs)
        if self.registered is None and not obs.crashed:
            return None
        if kind == "GET":
            return self._check_get(obs)
        if kind == "REMOVE":
            return self._check_remove(obs)
        if kind == "PURGE":
            return self._check_purge(obs)
        return self._check_passive(obs)

    def _reg_total(self, regset, files):
        """bytes in the files of the keys the cache says it holds"""
        tot = 0
        for k in regset:
            e = files.get(self.p_of(k))
            if e is not None:
                tot += e[0]
        return tot

    def _session_bound(self, obs, reg, new_reg, pre_files, post_files, zombies, fired, warned=False):
        """C19 runs (where orphans of failed requests make the plain directory total meaningless): what the cache
        has REGISTERED stays within the size in force across a request if it was within it before - registration
        happens only in requests, and every path that registers also enlarges/evicts.  Not judged when another
        actor is alive, and for a request that raised only when nothing but resource-level faults fired (a file
        system fault or a warning turned into an error can legitimately abort a request between registration
        and eviction)."""
        if not self.c19 or zombies or obs.crashed or self.max_bytes is None or obs.max_bytes is None:
            return None
        if obs.exc is not None and (warned or any(f["kind"] in FS_KINDS for f in fired)):
            return None
        before = self._reg_total(reg, pre_files)
        after = self._reg_total(new_reg, post_files)
        if before <= self.max_bytes and after > obs.max_bytes and new_reg - reg:
            self.probe("session_bound_judged")
            return self._v("19g", "the files registered in the cache total %d bytes > the size in force %d after the "
                           "request (%d <= %d before it; newly registered: %s): registered without eviction"
                           % (after, obs.max_bytes, before, self.max_bytes, sorted(new_reg - reg)), obs)
        self.probe("session_bound_judged")
        return None

    # ------------------------------------------------------------------ open
    def _check_open(self, obs):
        w = self.w
        for k_ in [k_ for k_, rj_ in self.rejected_since.items() if rj_.get("undeletable")]:
            del self.rejected_since[k_]  # a new process: it cannot know a verdict about a file that could not be deleted
        if obs.crashed:
            self.registered = None
            self.tainted = True
            return None
        pre_files = cache_files(obs.pre, self.cd)
        post_files = cache_files(obs.post, self.cd)
        if obs.exc is not None:
            self.registered = None
            self.ended = True
            import json as _json
            if isinstance(obs.exc, ValueError) and not isinstance(obs.exc, _json.JSONDecodeError) and not obs.op.get("evict"):
                # documented: directory larger than the configured size and no eviction on start-up
                total = sum(e[0] for e in pre_files.values())
                arg = obs.op.get("size") or w.knobs["max_bytes"]
                lim = self.persisted_max if self.persisted_max is not None else arg
                if self.persisted_alt is not None:
                    lim = min(lim, self.persisted_alt)
                # either the persisted size or the constructor argument may be the one in force
                if total > min(lim, arg) - 2:
                    self.probe("reopen_oversize_valueerror")
                    return None
            if self.c19 and self.tainted:
                # e.g. a torn config file: nothing is served, so C19 is not violated
                self.probe("config_torn_unopenable")
                return None
            return self._v("19f-open" if self.c19 else "18a", "the cache could not be opened: %r" % (obs.exc,), obs)
        if obs.fetches:
            return self._v("18b" if not self.c19 else "19f", "opening the cache contacted a resource: %r" % (obs.fetches,), obs)
        if not self.c19 and self.persisted_max is not None and obs.kind == "REOPEN":
            arg = obs.op.get("size") or w.knobs["max_bytes"]
            cands = [self.persisted_max, arg] + ([self.persisted_alt] if self.persisted_alt is not None else [])
            if not any(abs(obs.max_bytes - x) <= 2 for x in cands):
                return self._v("18e", "after reopen the configured size is %d; the persisted configuration says %d and the "
                               "constructor argument %d" % (obs.max_bytes, self.persisted_max, arg), obs)
        if not self.c19:
            # the size in force must be the one the configuration file states after the open (whichever of
            # persisted value and constructor argument won): two views of one setting
            ent = obs.post.get(self.cd + "/file_cache_config.json")
            if ent is not None:
                import json as _json
                try:
                    cfg = _json.loads(ent[4].decode())
                except ValueError:
                    cfg = None
                if isinstance(cfg, dict) and isinstance(cfg.get("size_gb"), (int, float)):
                    if abs(cfg["size_gb"] * 1e9 - obs.max_bytes) > 2:
                        return self._v("18e", "after opening the cache the size in force is %d bytes but file_cache_config.json "
                                       "states %.0f" % (obs.max_bytes, cfg["size_gb"] * 1e9), obs)
        self.max_bytes = obs.max_bytes
        self.persisted_max = obs.max_bytes
        self.persisted_alt = None
        self.allow_opts = set(self.allow_opts) | {self.allow_ctor}
        reg = {i for i, b in enumerate(obs.in_cache) if b}
        # start-up eviction obeys the LRU relation with an empty current request
        v = self._check_evictions(obs, current=set(), strict=not self.c19 or not self.tainted)
        if v:
            return v
        if not self.c19:
            # which key a file belongs to is learned from what requests returned (the documented
            # prefix+md5(uri)+postfix naming is only a fallback), so a different naming scheme is not an alarm
            on_disk = {self.k_of(p) for p in post_files if self.k_of(p) is not None}
            known = {k for k in range(len(w.keys)) if self.p_of(k) in post_files or k in self.path_seen}
            if (reg & known) != (on_disk & known) or len(reg) > len(post_files):
                return self._v("18d", "after (re)open in_cache says %s but cache files on disk are for keys %s"
                               % (sorted(reg), sorted(on_disk)), obs)
            if obs.length != len(post_files):
                return self._v("18d", "after (re)open len(cache)=%d but %d cache files on disk"
                               % (obs.length, len(post_files)), obs)
            total = sum(e[0] for e in post_files.values())
            if total > obs.max_bytes:
                return self._v("18e", "after (re)open cache files total %d > max %d" % (total, obs.max_bytes), obs)
        if pre_files and reg:
            self.probe("adopted_on_reopen")
        self.registered = reg
        return None

    # ------------------------------------------------------------- evictions
    def _check_evictions(self, obs, current, strict):
        """18f. current: set of paths of the current request."""
        w = self.w
        post_files = cache_files(obs.post, self.cd)
        victims = [u for u in obs.unlinks if posixpath.dirname(u[0]) == self.cd and is_cache_name(posixpath.basename(u[0]))
                   and u[5] == "unlink"]
        evicted = []
        for (p, ino, at, mt, size, how) in victims:
            if p in post_files:
                continue  # removed and re-created (e.g. refetch after validation failure): not an eviction
            evicted.append((p, max(at, mt)))
        if not evicted:
            return None
        self.probe("evictions", len(evicted))
        w.stats["evictions"] += len(evicted)
        for p, st in evicted:
            if p in current:
                return self._v("18f-i" if not self.c19 else "19c-evicted-current",
                               "a file of the current request was evicted: %s" % posixpath.basename(p), obs)
        if not strict or self.c19:
            return None
        survivors = {p: stamp(e) for p, e in post_files.items() if p not in current}
        vmax = max(st for _, st in evicted)
        for p, st in survivors.items():
            k = self.k_of(p)
            if k is not None and k in self.volatile:
                continue
            if fstamp(st) < fstamp(vmax):
                vp = [q for q, s in evicted if s == vmax][0]
                return self._v("18f-ii", "evicted %s (last used %d) although %s (last used %d) is older and was kept"
                               % (posixpath.basename(vp), vmax, posixpath.basename(p), st), obs)
            if fstamp(st) == fstamp(vmax):
                self.probe("tie_at_eviction")
        return None

    # ------------------------------------------------------------------- get
    def _check_get(self, obs):
        w = self.w
        req = list(obs.op["keys"])
        reg = self.registered if self.registered is not None else set()
        pre_files = cache_files(obs.pre, self.cd)
        post_files = cache_files(obs.post, self.cd)
        if len(self.allow_opts) == 1:
            allow_missing = next(iter(self.allow_opts))
        else:
            # set by an earlier process and reopened with another constructor argument: either may be in force
            allow_missing = obs.cfg_allow_pre if obs.cfg_allow_pre is not None else self.allow_ctor
        if w.wrong_directive is not None:
            _o, k_, n_ = w.wrong_directive
            w.wrong_directive = None
            return self._v("19e" if self.c19 else "18a", "key %d is requested with validate=%s but the cache called the "
                           "validator registered as %r" % (k_, w.keys[k_].get("vn", "v"), n_), obs)
        # --- classify the request ------------------------------------------------
        rejected = set()
        for (_op, key, verdict) in obs.validator_calls:
            if key is not None and verdict is not True and verdict != "raised":
                rejected.add(key)
        fired = [f for f in obs.fired]
        failing = [f for f in fired if f["kind"] in FAILING]
        natural_missing = {k for k in req if (k not in reg or k in rejected) and
                           (w.store.current(self._res(k)) is None or w.keys[k]["scheme"] == "nosuch")}
        fail_keys = set()
        fail_res = set()
        for f in failing:
            if f.get("_key") is not None:
                fail_keys.add(f["_key"])
            elif f.get("key") is not None:
                fail_res.add((_scheme_of_fault(f["kind"]), self._res(f["key"])))
        fail_keys |= natural_missing
        if any(f["kind"] == "DISK_FULL" for f in failing):
            fail_keys |= set(k for k in req if k not in reg or k in rejected)
        # (the stub could not tell the key - unknown file naming - but it does know scheme and resource)
        maybe_failed = {k for k in req if k in fail_keys or (w.keys[k]["scheme"], self._res(k)) in fail_res
                        or (None, self._res(k)) in fail_res}
        zombies = obs.busy_before > 0 or obs.busy_after > 0
        strict = not fired and not natural_missing and not obs.crashed and not zombies
        if fired or natural_missing or obs.crashed:
            self.tainted = True
        misses = [k for k in req if k not in reg or k in rejected]
        w.miss_log[obs.op["id"]] = list(misses)
        w.stats["misses"] += len(misses)
        w.stats["hits"] += len(req) - len(misses)
        if zombies:
            self.probe("get_with_zombie_alive")
        if not obs.crashed:
            # (a process that dies between the validator's verdict and acting on it cannot remember the
            # verdict: no implementation can avoid serving that file after the restart)
            for k in rejected:
                p0 = self.p_of(k)
                if p0 in pre_files:
                    self.rejected_since[k] = {"id": (pre_files[p0][4], pre_files[p0][5]), "path": p0}
                    if any(f["kind"] == "UNLINK_EACCES" for f in fired):
                        # the operating system refused the deletion of the rejected file: the running process must
                        # still never serve it, but the next process cannot know about the verdict
                        self.rejected_since[k]["undeletable"] = True
        if obs.busy_after > 0:
            self.volatile |= set(misses)

        if obs.crashed:
            self.registered = None
            self.pending_retry |= set(misses)
            return None

        # --- outcome ---------------------------------------------------------------
        if obs.exc is not None:
            warned = self.c19 and w.knobs.get("warnings_error") and isinstance(obs.exc, Warning)
            if warned:
                # the process turns warnings into errors: the library's own warning (tolerated miss, enlargement)
                # surfaced as an exception; the request raised, which C19 accepts - what it leaves behind is
                # still checked below and in later requests
                self.probe("warning_raised_as_error")
                self.tainted = True
            if (not self.c19 and isinstance(obs.exc, UnicodeEncodeError) and not failing
                    and any(any(0xD800 <= ord(ch) <= 0xDFFF for ch in w.keys[k]["res"]) for k in req)):
                # a uri that is not valid Unicode (a file name with undecodable bytes, which Python carries as lone
                # surrogates): the cache refuses it before anything is stored.  C18 speaks of paths that ARE returned;
                # a refusal is accepted provided it leaves everything as it was
                new_reg = {i for i, b in enumerate(obs.in_cache) if b}
                if new_reg != reg or post_files.keys() != pre_files.keys():
                    return self._v("18d", "a refused request (uri that is not valid Unicode) changed the cache: in_cache %s -> %s"
                                   % (sorted(reg), sorted(new_reg)), obs)
                self.probe("undecodable_uri_refused")
                return None
            if not failing and not natural_missing and not warned:
                clause = "19d-poison" if self.c19 else "18a"
                return self._v(clause, "request %s raised %r although nothing failed in it" % (req, obs.exc), obs)
            self.probe("get_raised_after_fault")
            # everything that was cached before must still be there, unchanged (19c)
            v = self._bystanders(obs, reg, set(misses), pre_files, post_files, current_paths=set())
            if v:
                return v
            new_reg = {i for i, b in enumerate(obs.in_cache) if b}
            lost = (reg - new_reg) - rejected - self._evicted_keys(obs, post_files)
            if len(lost) > self._unattributed_evictions(obs, post_files):
                return self._v("19c", "keys %s were cached before the failed request and are gone after it" % sorted(lost), obs)
            v = self._session_bound(obs, reg, new_reg, pre_files, post_files, zombies, fired, warned)
            if v:
                return v
            self.registered = new_reg
            self.pending_retry |= set(misses)
            for k in rejected & set(maybe_failed):
                self.rejected_unfetched.add(k)
            return None

        res = obs.result
        if not isinstance(res, list) or not all(isinstance(x, str) for x in res):
            return self._v("18a" if not self.c19 else "19a", "request returned %r, not a list of paths" % (res,), obs)

        # --- align the result with the request (omissions only for failed keys) -----
        served = self._align(req, res, maybe_failed, allow_missing, post_files)
        if served is None:
            if not maybe_failed:
                return self._v("18a" if not self.c19 else "19a",
                               "request of %d uris returned %d paths: %r" % (len(req), len(res), res), obs)
            return self._v("19a", "after a failed fetch the result %r is not the request %s minus failed keys %s"
                           % ([posixpath.basename(x)[10:16] for x in res], req, sorted(maybe_failed)), obs)
        omitted = [k for i, k in enumerate(req) if served[i] is None]
        if omitted:
            self.probe("omitted_after_fault", len(omitted))
            if not allow_missing:
                return self._v("19a", "missing files are not tolerated but keys %s were silently omitted" % omitted, obs)
        current_paths = {p for p in served if p is not None}

        # --- per served key: path, injectivity, bytes ---------------------------------
        fetch_count = {}
        for (_op, scheme, r, actor, step) in obs.fetches:
            fetch_count[r] = fetch_count.get(r, 0) + 1
        miss_per_res = {}
        for k in misses:
            miss_per_res[self._res(k)] = miss_per_res.get(self._res(k), 0) + 1
        for i, k in enumerate(req):
            p = served[i]
            if p is None:
                continue
            if posixpath.dirname(p) != self.cd:
                return self._v("18a" if not self.c19 else "19b", "returned path %s is outside the cache directory" % p, obs)
            prev = self.path_seen.get(k)
            if prev is not None and prev != p and not self.c19:
                return self._v("18c", "key %d was served from %s before and from %s now" % (k, prev, p), obs)
            other = self.owner_of_path.get(p)
            if other is not None and other != k and not self.c19:
                return self._v("18c", "keys %d and %d share the file %s" % (other, k, p), obs)
            self.path_seen[k] = p
            self.owner_of_path[p] = k
            ent = post_files.get(p)
            if ent is None:
                clause = "19b" if self.c19 else ("18f-i" if any(u[0] == p for u in obs.unlinks) else "18a")
                return self._v(clause, "returned path for key %d does not exist: %s" % (k, posixpath.basename(p)), obs)
            data = ent[3]
            rj = self.rejected_since.get(k)
            if rj is not None:
                pre = pre_files.get(p)
                same_file = pre is not None and (pre[4], pre[5]) == rj["id"] and (ent[4], ent[5]) == rj["id"]
                if not same_file:
                    del self.rejected_since[k]  # the file was replaced or rewritten since the rejection
                else:
                    return self._v("19e", "key %d was rejected by its validator earlier and the very file that was rejected "
                                   "(never rewritten since) is now served as a hit" % k, obs)
            is_hit = k in reg and k not in rejected
            if is_hit:
                ok = data in w.acceptable_bytes(k)
                if ok and k not in self.volatile and not zombies:
                    pre = pre_files.get(p)
                    if pre is not None and pre[3] != data:
                        return self._v("18a" if not self.c19 else "19c",
                                       "cached file of key %d changed during a request that only hit it" % k, obs)
                if not ok:
                    return self._v("19b" if self.c19 else "18a",
                                   "key %d was served as a hit but its file holds %s" % (k, self._describe(k, data)), obs)
            else:
                exp = w.expected_bytes(k)
                if k in self.volatile or zombies or w.keys[k]["scheme"] == "chain":
                    # (a chained key comes out of the second cache, which may legitimately hold an older version)
                    ok = data in w.acceptable_bytes(k)
                else:
                    ok = data == exp
                if not ok:
                    return self._v("19b" if self.c19 else "18a",
                                   "key %d was fetched but the served file holds %s" % (k, self._describe(k, data)), obs)
        # --- a validate directive on a cached entry must be honoured ---------------------
        if self.c19:
            ov = obs.op.get("val") or []
            consulted = {key for (_op, key, verdict) in obs.validator_calls}
            if None in consulted:
                req = list(req)
                consulted = set(range(len(w.keys)))  # a call could not be attributed to a key: rule not applicable
            for pos, k in enumerate(req):
                has_val = ov[pos] if pos < len(ov) and ov[pos] is not None else w.keys[k].get("val")
                if (has_val and served[pos] is not None and w.validator_policy.get("mode") == "current"
                        and not zombies and k not in self.volatile and not obs.back_in_op
                        and w.keys[k]["scheme"] != "chain"):
                    # the validator in force accepts only the current version: whatever path the request took
                    # (hit, adoption of a file found on disk, fetch), a file it would reject must not be served
                    ent = post_files.get(served[pos])
                    if ent is not None and ent[3] != w.expected_bytes(k) and ent[3] in w.acceptable_bytes(k):
                        return self._v("19e", "key %d was requested with a validate directive whose validator accepts only "
                                       "the current version, yet an older version was served (validator not consulted "
                                       "for a file found on disk?)" % k, obs)
                if has_val and k in reg and k not in consulted:
                    return self._v("19e", "key %d was cached and requested with a validate directive, but its validator was "
                                   "never consulted (a rejected entry would have been served)" % k, obs)
        # --- hits must not contact the resource; misses must -------------------------
        for r, n in fetch_count.items():
            if n > miss_per_res.get(r, 0):
                if self.c19 or any(w.keys[k]["scheme"] == "chain" and self._res(k) == r for k in req):
                    continue  # 18b is C18's clause; under faults retries / zombie traffic are legitimate
                return self._v("18b", "resource %s was contacted %d times but only %d requested keys using it were not cached"
                               % (r, n, miss_per_res.get(r, 0)), obs)
        for k in misses:
            if served[req.index(k)] is None:
                continue
            if w.keys[k]["scheme"] == "chain":
                continue  # fetched through the second cache, which may have served it from its own files
            r = self._res(k)
            if fetch_count.get(r, 0) == 0:
                p = served[req.index(k)]
                pre = pre_files.get(p)
                adopted_ok = pre is not None and pre[3] in w.acceptable_bytes(k)
                if k in rejected:
                    return self._v("19e", "key %d was rejected by its validator but served without a new fetch" % k, obs)
                if not adopted_ok or not self.c19:
                    return self._v("19d" if self.c19 else "18a",
                                   "key %d was not cached, nothing was fetched, and yet a path was returned" % k, obs)
                self.probe("orphan_adopted_in_session")
        for k in rejected:
            if k in req and served[req.index(k)] is not None:
                self.probe("validator_rejected_refetched")

        # --- bookkeeping of entries --------------------------------------------------
        new_reg = {i for i, b in enumerate(obs.in_cache) if b}
        evicted_keys = self._evicted_keys(obs, post_files)
        expected_reg = (reg | {k for i, k in enumerate(req) if served[i] is not None}) - evicted_keys
        for k in omitted:
            expected_reg.discard(k) if k not in reg or k in rejected else None
        if not self.c19:
            if new_reg != expected_reg:
                return self._v("18d", "after the request in_cache is true for %s, expected %s"
                               % (sorted(new_reg), sorted(expected_reg)), obs)
            if obs.length != len(post_files):
                return self._v("18d", "len(cache)=%d but %d cache files are on disk" % (obs.length, len(post_files)), obs)
        else:
            lost = (reg - new_reg) - evicted_keys - rejected
            if len(lost) > self._unattributed_evictions(obs, post_files):
                return self._v("19c", "keys %s were cached before the request and are gone after it" % sorted(lost), obs)
            for k in [k for i, k in enumerate(req) if served[i] is not None]:
                if k not in new_reg:
                    return self._v("19c", "key %d was returned but is not in the cache afterwards" % k, obs)
            v = self._session_bound(obs, reg, new_reg, pre_files, post_files, zombies, fired)
            if v:
                return v

        # --- bystanders ---------------------------------------------------------------
        v = self._bystanders(obs, reg, set(req), pre_files, post_files, current_paths)
        if v:
            return v
        # --- eviction relation, never the current request -------------------------------
        v = self._check_evictions(obs, current_paths, strict)
        if v:
            return v
        # --- size bound / enlargement --------------------------------------------------
        if not self.c19:
            total = sum(e[0] for e in post_files.values())
            req_total = sum(post_files[p][0] for p in current_paths)
            # a uri named twice in one request may or may not be counted twice by the implementation
            req_total_mult = sum(post_files[p][0] for p in served if p is not None)
            old_max = self.max_bytes
            if total > obs.max_bytes:
                return self._v("18e", "cache files total %d bytes > configured %d after the request" % (total, obs.max_bytes), obs)
            if obs.max_bytes != old_max:
                if req_total_mult <= old_max:
                    return self._v("18e", "configured size changed %d -> %d although the request (%d bytes) fitted"
                                   % (old_max, obs.max_bytes, req_total), obs)
                if obs.max_bytes < req_total:
                    return self._v("18e", "enlarged to %d which is less than the request (%d)" % (obs.max_bytes, req_total), obs)
                self.probe("enlargements")
            elif req_total > old_max:
                return self._v("18e", "request of %d bytes exceeds the size %d but the size was not enlarged" % (req_total, old_max), obs)
            if misses and evicted_keys:
                # over-eviction is counted, not flagged
                freed_needed = sum(e[0] for e in pre_files.values()) + 0
                self.probe("ops_with_eviction")
        if obs.max_bytes != self.max_bytes:
            self.persisted_max = obs.max_bytes  # an enlargement is persisted
        self.max_bytes = obs.max_bytes
        # --- use refreshes recency (18f-iii) ---------------------------------------------
        if not self.c19 and strict and obs.back_in_op == 0:
            for p in current_paths:
                ent = post_files[p]
                if fstamp(stamp(ent)) < fstamp(obs.clock_start):
                    k = self.k_of(p)
                    return self._v("18f-iii", "key %s was served but its recency stamp %d is older than the request (%d): "
                                   "a hit does not refresh recency" % (k, stamp(ent), obs.clock_start), obs)
                if obs.clock_end is not None and fstamp(stamp(ent)) > fstamp(obs.clock_end) + 1e-6:
                    k = self.k_of(p)
                    return self._v("18f-iii", "key %s was served but its recency stamp %d still lies in the future (now %d): "
                                   "use must set recency to the time of use, otherwise the file outlives files used later"
                                   % (k, stamp(ent), obs.clock_end), obs)
        # --- retry bookkeeping ---------------------------------------------------------
        for i, k in enumerate(req):
            if served[i] is not None:
                self.pending_retry.discard(k)
                self.rejected_unfetched.discard(k)
            elif k in misses:
                self.pending_retry.add(k)
        self.registered = new_reg
        return None

    def _only_notfound(self, k, failing, natural_missing):
        if k in natural_missing:
            return True
        return all(f["kind"] in NOTFOUND_KINDS for f in failing if f.get("_key") == k)

    def _align(self, req, res, maybe_failed, allow_missing, post_files=None):
        """Match result paths to request positions: the result must be the request with some positions
        left out, and only positions whose key may have failed can be left out.  Returns a list with a
        path or None per request position, or None if no such matching exists."""
        import itertools
        w = self.w
        n, m = len(req), len(res)
        if m > n:
            return None
        if m == n:
            return list(res)
        cand = [i for i, k in enumerate(req) if k in maybe_failed]
        if len(cand) < n - m:
            return None
        best, best_score = None, -1
        for skip in itertools.combinations(cand, n - m):
            sk = set(skip)
            out, j, score = [], 0, 0
            for i, k in enumerate(req):
                if i in sk:
                    out.append(None)
                    continue
                known = self.p_of(k)
                if res[j] == known:
                    score += 2
                elif post_files is not None and res[j] in post_files and post_files[res[j]][3] in w.acceptable_bytes(k):
                    score += 1  # unknown naming: the content tells which key a path belongs to
                out.append(res[j])
                j += 1
            if score > best_score:
                best, best_score = out, score
        return best

    def _evicted_keys(self, obs, post_files):
        w = self.w
        out = set()
        requested = set(obs.op.get("keys") or [])
        for (p, ino, at, mt, size, how) in obs.unlinks:
            k = self.k_of(p)
            if how != "unlink" or k is None:
                continue
            # a file that is there again afterwards was re-created: for a requested key that is a refetch (e.g.
            # after a validator rejection), for any other key the entry was evicted and a zombie worker of an
            # earlier failed request published its late copy afterwards (an unregistered orphan)
            if p not in post_files or k not in requested:
                out.add(k)
        return out

    def _unattributed_evictions(self, obs, post_files):
        """cache files that were deleted and whose key is unknown (their path was never returned and does
        not follow the documented naming): each may explain one entry that disappeared"""
        n = 0
        for (p, ino, at, mt, size, how) in obs.unlinks:
            if how == "unlink" and p not in post_files and posixpath.dirname(p) == self.cd and \
                    is_cache_name(posixpath.basename(p)) and self.k_of(p) is None:
                n += 1
        return n

    def _bystanders(self, obs, reg, requested, pre_files, post_files, current_paths):
        """Files of keys that were cached and not requested must be byte-identical if still present."""
        w = self.w
        for k in reg:
            if k in requested or k in self.volatile:
                continue
            p = self.p_of(k)
            pre, post = pre_files.get(p), post_files.get(p)
            if pre is None or post is None:
                continue
            if pre[3] != post[3]:
                return self._v("19c" if self.c19 else "18a", "cached file of key %d, which was not requested, changed" % k, obs)
            if not self.c19 and (pre[1], pre[2]) != (post[1], post[2]) and obs.kind == "GET":
                self.probe("bystander_restamped")
        return None

    def _describe(self, k, data):
        w = self.w
        exp = w.expected_bytes(k)
        if exp is not None and data == exp:
            return "the current version"
        acc = w.acceptable_bytes(k)
        if data in acc:
            return "an older complete version"
        for a in acc:
            if a.startswith(data) and len(data) < len(a):
                return "a truncated copy (%d of %d bytes)" % (len(data), len(a))
        kd = w.keys[k]
        if kd.get("pp"):
            other = "pp" if kd.get("ppn", "pp") != "pp" else "the second post-processor"
            for raw in w.store.all_versions(kd["res"]):
                if data == (b"Q2(" if other != "pp" else b"PP(") + raw[::-1] + b")":
                    return "the output of the post-processor registered as %r, but the uri names %r" % (other, kd.get("ppn", "pp"))
            for raw in w.store.all_versions(kd["res"]):
                if data == raw:
                    return "the raw download that never went through the post-processor"
                if raw.startswith(data):
                    return "a truncated raw download (%d of %d bytes)" % (len(data), len(raw))
        else:
            for raw in w.store.all_versions(kd["res"]):
                if data in (b"PP(" + raw[::-1] + b")", b"Q2(" + raw[::-1] + b")"):
                    return "post-processed bytes although no post-processing was requested"
        return "%d unexpected bytes starting %r" % (len(data), data[:24])

    # ---------------------------------------------------------------- remove
    def _check_remove(self, obs):
        w = self.w
        k = obs.op["key"]
        reg = self.registered
        if obs.crashed:
            self.registered = None
            self.tainted = True
            return None
        pre_files, post_files = cache_files(obs.pre, self.cd), cache_files(obs.post, self.cd)
        if obs.exc is not None:
            if k not in reg and isinstance(obs.exc, ValueError):
                return None
            return self._v("18d" if not self.c19 else "19d-poison", "remove(key %d) raised %r" % (k, obs.exc), obs)
        new_reg = {i for i, b in enumerate(obs.in_cache) if b}
        p = self.p_of(k)
        if not self.c19:
            if new_reg != reg - {k}:
                return self._v("18d", "after remove(key %d) in_cache is true for %s, expected %s" % (k, sorted(new_reg), sorted(reg - {k})), obs)
            if k in reg and p in post_files:
                return self._v("18d", "remove(key %d) left its file on disk" % k, obs)
            if obs.length != len(post_files):
                return self._v("18d", "len(cache)=%d but %d cache files on disk after remove" % (obs.length, len(post_files)), obs)
        v = self._bystanders(obs, reg, {k}, pre_files, post_files, set())
        if v:
            return v
        for q in pre_files:
            if q != p and q not in post_files and (not self.c19):
                return self._v("18d", "remove(key %d) deleted another cache file %s" % (k, posixpath.basename(q)), obs)
        self.registered = new_reg
        return None

    def _check_purge(self, obs):
        if obs.crashed:
            self.registered = None
            self.tainted = True
            return None
        post_files = cache_files(obs.post, self.cd)
        if obs.exc is not None:
            import json as _json
            if (w_is_module(self.w) and isinstance(obs.exc, ValueError)
                    and not isinstance(obs.exc, _json.JSONDecodeError) and post_files
                    and sum(e[0] for e in post_files.values()) > min(self.persisted_max or 0, self.persisted_alt if self.persisted_alt is not None else 10**18,
                                                                     self.w.knobs["max_bytes"]) - 2):
                # module-level purge = delete_cache + create_cache: the re-creation adopted orphaned complete
                # files of an earlier failed request and the directory exceeds its limit: the documented error
                self.probe("reopen_oversize_valueerror")
                self.registered = None
                self.ended = True
                return None
            if self.c19 and self.tainted and w_is_module(self.w) and isinstance(obs.exc, _json.JSONDecodeError):
                # module-level purge re-creates the cache object: a configuration file torn by an earlier
                # crash or full disk makes the directory unopenable - nothing is served (as for REOPEN)
                self.probe("config_torn_unopenable")
                self.registered = None
                self.ended = True
                return None
            return self._v("18d" if not self.c19 else "19d-poison", "purge() raised %r" % (obs.exc,), obs)
        new_reg = {i for i, b in enumerate(obs.in_cache) if b}
        if new_reg and not self.c19:
            return self._v("18d", "after purge in_cache is still true for %s" % sorted(new_reg), obs)
        if not self.c19:
            if post_files:
                return self._v("18d", "purge left %d cache files on disk" % len(post_files), obs)
            if obs.length != 0:
                return self._v("18d", "len(cache)=%d after purge" % obs.length, obs)
        # (module-level purge re-creates the cache object: under faults it may adopt orphaned complete files)
        if w_is_module(self.w):
            for k_ in [k_ for k_, rj_ in self.rejected_since.items() if rj_.get("undeletable")]:
                del self.rejected_since[k_]  # a new cache object: as after a reopen
        self.registered = new_reg if self.c19 else set()
        if w_is_module(self.w) and obs.max_bytes is not None:
            # module-level purge re-creates the cache object, which re-reads the persisted configuration
            self.max_bytes = obs.max_bytes
            self.persisted_max = obs.max_bytes
            self.allow_opts = set(self.allow_opts) | {self.allow_ctor}
        return None

    def _check_passive(self, obs):
        """TOUCH / AGE / USER_READ / FOREIGN / RES_* / VALIDATOR / DRAIN / EDIT_CONFIG: harness-side operations."""
        if obs.crashed:
            self.registered = None
            self.tainted = True
            if obs.kind == "SETCFG":
                self.allow_opts = {True, False}
        elif obs.kind == "EDIT_CONFIG" and obs.result is not None:
            self.persisted_max = obs.result  # takes effect at the next open
            self.probe("config_edited")
        elif obs.kind == "SETCFG":
            return self._check_setcfg(obs)
        elif obs.kind == "SAMEDIR":
            if obs.exc is not None:
                return None if self.c19 else self._v("18a", "creating a second named cache raised %r" % (obs.exc,), obs)
            if obs.result is not None:
                self.probe("second_cache_on_same_directory_" + obs.result[0])
                if obs.result[0] == "accepted" and not self.c19:
                    n_files = len(cache_files(obs.post, self.cd))
                    if obs.length is not None and obs.length != n_files:
                        return self._v("18d", "a second named cache was accepted on the directory of the first one (path given as "
                                       "%r); after a request through it len(cache)=%d but %d cache files are on disk"
                                       % (obs.result[1], obs.length, n_files), obs)
        elif obs.kind == "SETDIR":
            if obs.exc is not None:
                return self._v("19d-poison" if self.c19 else "18a", "managing directive functions (%s %s) raised %r"
                               % (obs.op.get("what"), obs.op.get("directive"), obs.exc), obs)
            if obs.result is not None:
                self.probe("directive_function_" + obs.result[0])
        return None

    def _check_setcfg(self, obs):
        """the caller changed a setting through the configuration object's public properties"""
        attr = obs.op.get("attr")
        if obs.exc is not None:
            return self._v("19d-poison" if self.c19 else "18a", "setting config.%s raised %r" % (attr, obs.exc), obs)
        if obs.result is None:
            return None
        self.probe("config_set_" + attr)
        # every setter persists the configuration as the running cache holds it: a value the user edited into the file
        # while the cache was running may be overwritten by that (or not, if an implementation writes only what changed)
        if self.max_bytes is not None and self.persisted_max is not None and abs(self.persisted_max - self.max_bytes) > 2:
            self.persisted_alt = self.persisted_max
            self.persisted_max = self.max_bytes
        if attr == "allow":
            self.allow_opts = {obs.result[1]}
        elif attr == "grow":
            want = obs.result[1]
            if obs.max_bytes is not None:
                if abs(obs.max_bytes - want) > 2:
                    return self._v("18e" if not self.c19 else "19g", "the size limit was set to %d bytes but the size in "
                                   "force is %s" % (want, obs.max_bytes), obs)
                self.max_bytes = obs.max_bytes
                self.persisted_max = obs.max_bytes
        return None
